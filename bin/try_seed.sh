#!/bin/bash
# usage: bin/try_seed.sh <patch.diff> <check-id> [<check-id>...]
# Applies a seeded change to /repo, runs the given checks (quick), undoes it.
set -u
patch="$1"; shift
cd /repo || exit 2
if ! git diff --quiet; then echo "/repo has uncommitted changes"; exit 2; fi
git apply "$patch" || { echo "patch does not apply"; exit 2; }
for id in "$@"; do
  (cd /verif && VERIF_BUDGET_S="${SEED_BUDGET_S:-120}" timeout 1500 ./check "$id" quick > "/tmp/seedrun-$id.log" 2>&1; echo "$id exit=$? $(grep -c '^VIOLATION' /tmp/seedrun-$id.log) violations: $(grep -m2 -A3 '^VIOLATION' /tmp/seedrun-$id.log | grep 'core=' | head -2 | cut -c1-200)")
done
git -C /repo checkout -- .
git -C /repo status --short | head -3
