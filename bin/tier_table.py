#!/usr/bin/env python3
"""Development aid: prints the 'measured tiers' table of DESIGN 7.5 from runs/<ID>-<tier>.json."""
import json,sys,os
tier=sys.argv[1] if len(sys.argv)>1 else 'quick'
print('| id | evaluations | distinct non-trivial | scenarios | exhaustive | known findings hit | wall |')
print('|---|---|---|---|---|---|---|')
for i in range(1,21):
    p=f'/verif/runs/C{i:02d}-{tier}.json'
    if not os.path.exists(p): continue
    e=json.load(open(p)); c=e['coverage']
    print(f"| C{i:02d} | {c['evaluations']:,} | {c['distinct_nontrivial']:,} | {c.get('scenarios_completed','')} | {'yes' if c.get('exhaustive') else 'no'} | {len(c.get('known_findings_hit') or [])} | {e['wall_s']:.0f} s |".replace(',',' '))
