#!/bin/bash
# usage: bin/sweep.sh <tier> <ids...>   (development aid)
# Runs the given checks one after the other from THIS copy of the framework
# (VERIF_DIR = this directory, so a `vp run` snapshot keeps its own build output,
# evidence and replays) and appends one summary line per check to sweep-<tier>.out.
cd "$(dirname "$0")/.."
export VERIF_DIR="$PWD"
tier=$1; shift
mkdir -p sweep-logs
for id in "$@"; do
  s=$(date +%s); timeout 4000 ./check $id $tier > sweep-logs/${tier}_$id.log 2>&1; rc=$?; e=$(date +%s)
  echo "$id rc=$rc t=$((e-s))s $(grep -c '^VIOLATION' sweep-logs/${tier}_$id.log) viol $(grep -c '^KNOWN' sweep-logs/${tier}_$id.log) known | $(tail -1 sweep-logs/${tier}_$id.log | cut -c1-170)" >> sweep-$tier.out
done
echo DONE >> sweep-$tier.out
