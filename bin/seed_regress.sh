#!/bin/bash
# usage: bin/seed_regress.sh [seed-dir-name ...]
# Development aid: runs every seeded change under /verif/seeded against the
# quick check(s) of its property (scratch worktree + scratch copy of the
# framework, see try_seed_wt.sh) and prints one line per seed:
#   <seed> <check> DETECTED|MISSED  (<n> violations)
# A seed counts as detected when the check exits 1 with a VIOLATION line.
cd "$(dirname "$0")/.."
seeds="$@"
[ -z "$seeds" ] && seeds=$(ls seeded)
for s in $seeds; do
  [ -f "seeded/$s/patch.diff" ] || continue
  checks=$(python3 - "$s" <<'EOF'
import json,sys,re
m=json.load(open(f'/verif/seeded/{sys.argv[1]}/meta.json'))
how=m.get('detection',{}).get('how_run','')
ids=re.findall(r'\bC\d\d\b', how.split('patch.diff')[-1])
print(' '.join(ids) if ids else m['property'])
EOF
)
  for c in $checks; do
    out=$(SEED_BUDGET_S="${SEED_BUDGET_S:-300}" timeout 2400 bin/try_seed_wt.sh "seeded/$s/patch.diff" "$c" 2>&1 | grep "exit=")
    n=$(echo "$out" | sed -n 's/.*exit=[0-9]* \([0-9]*\) violations.*/\1/p')
    rc=$(echo "$out" | sed -n 's/.*exit=\([0-9]*\) .*/\1/p')
    if [ "$rc" = "1" ] && [ "${n:-0}" -gt 0 ]; then echo "$s $c DETECTED ($n violations)"; else echo "$s $c MISSED (exit=$rc)"; fi
  done
done
