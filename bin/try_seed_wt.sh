#!/bin/bash
# usage: bin/try_seed_wt.sh <patch.diff> <check-id> [<check-id>...]
# Development aid: runs the given quick checks against a scratch worktree of
# /repo with <patch.diff> applied, from a scratch copy of this framework, so
# that /repo and /verif stay untouched (other checks may be running on them).
# Everything it creates lives under /tmp and is removed at the end.
set -u
patch="$(readlink -f "$1")"; shift
tag="$(basename "$(dirname "$patch")")-$$"
wt="/tmp/seedwt-$tag"
vd="/tmp/seedvf-$tag"
cleanup() {
  [ -n "${KEEP:-}" ] && return
  git -C /repo worktree remove --force "$wt" >/dev/null 2>&1
  rm -rf "$wt" "$vd"
}
trap cleanup EXIT
git -C /repo worktree add --detach "$wt" HEAD >/dev/null 2>&1 || { echo "worktree failed"; exit 2; }
git -C "$wt" apply "$patch" || { echo "patch does not apply"; exit 2; }
mkdir -p "$vd"
(cd /verif && git ls-files -z --cached --others --exclude-standard | grep -zv '^evidence/\|^seeded/' | xargs -0 cp --parents -t "$vd") || exit 2
mkdir -p "$vd/evidence"
export VERIF_DIR="$vd" VERIF_REPO="$wt"
for id in "$@"; do
  log="/tmp/seedrun-$tag-$id.log"
  (cd "$vd" && VERIF_BUDGET_S="${SEED_BUDGET_S:-120}" timeout "${SEED_TIMEOUT:-1500}" ./check "$id" "${SEED_TIER:-quick}" > "$log" 2>&1
   echo "$id exit=$? $(grep -c '^VIOLATION' "$log") violations: $(grep -m2 -A3 '^VIOLATION' "$log" | grep 'core=' | head -2 | cut -c1-220)")
  mkdir -p /tmp/seedreplays-$tag && cp "$vd"/replays/* /tmp/seedreplays-$tag/ 2>/dev/null
  tail -3 "$log" | cut -c1-300
done
