#!/bin/bash
# Regenerates /verif/mc/go.mod + go.sum from "$REPO"/go.mod so the dependency
# list always matches the tree under test.
set -e
cd "$(dirname "$0")/../mc"
REPO="${VERIF_REPO:-/repo}"
{
  echo "module verifmc"
  echo
  grep -E '^go ' "$REPO"/go.mod
  echo
  echo "require github.com/yorkie-team/yorkie v0.0.0"
  echo "require github.com/anishathalye/porcupine v1.3.0"
  echo
  echo "replace github.com/yorkie-team/yorkie => $REPO"
  echo
  awk '/^require \(/{p=1} p{print} /^\)/{p=0}' "$REPO"/go.mod
  echo
  awk '/^replace \(/{p=1} p{print} /^\)/{p=0}' "$REPO"/go.mod
  grep -E '^replace [^(]' "$REPO"/go.mod || true
} > go.mod.new
if ! cmp -s go.mod.new go.mod; then mv go.mod.new go.mod; else rm go.mod.new; fi
cat "$REPO"/go.sum > go.sum.new
cat >> go.sum.new <<'SUM'
github.com/anishathalye/porcupine v1.3.0 h1:yo51Niv8Tg0tAAn5XOG2UVvJXUregK4WFuLrBRoowP8=
github.com/anishathalye/porcupine v1.3.0/go.mod h1:WM0SsFjWNl2Y4BqHr/E/ll2yY1GY1jqn+W7Z/84Zoog=
SUM
if ! cmp -s go.sum.new go.sum; then mv go.sum.new go.sum; else rm go.sum.new; fi
