#!/bin/bash
# usage: bin/confirm_seed.sh <gen-worktree> <seedout-dir> <demo-file> <pkg-dir> <run-regex> [nosuite]
# Development aid: confirms the three facts about a seeded change in its own
# scratch worktree: demo fails with the change, passes without it, and the
# pinned suite stays green with the change (demo out of the tree).
wt=$1; so=$2; demo=$3; pkg=$4; re=$5
export GOFLAGS=-mod=mod GOPROXY=off
cd "$wt" || exit 2
git checkout -q -- . && git clean -fdq
cp "$so/$demo" "$pkg/" || exit 2
go test -vet=off -count=1 -run "$re" "./$pkg/" > /tmp/confirm-$$.a 2>&1; a=$?
git apply "$so/patch.diff" || { echo "patch does not apply"; exit 2; }
go test -vet=off -count=1 -run "$re" "./$pkg/" > /tmp/confirm-$$.b 2>&1; b=$?
rm -f "$pkg/$demo"
s=skipped
if [ "${6:-}" != "nosuite" ]; then
  go test -vet=off -count=1 ./... > /tmp/confirm-$$.c 2>&1; s=$?
  [ $s -ne 0 ] && grep -v "^ok\|no test files" /tmp/confirm-$$.c | head -20
fi
git checkout -q -- . && git clean -fdq
echo "CONFIRM $(basename $so): demo_without_change_exit=$a (want 0) demo_with_change_exit=$b (want 1) suite_with_change_exit=$s (want 0)"
[ $a -ne 0 ] && tail -20 /tmp/confirm-$$.a
[ $b -eq 0 ] && tail -5 /tmp/confirm-$$.b
rm -f /tmp/confirm-$$.*
