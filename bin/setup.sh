#!/bin/bash
# Builds the framework from files on disk only (offline).
set -e
cd "$(dirname "$0")/.."
. bin/env.sh
bin/gen_gomod.sh
(cd mc && "$VERIF_GO" run ./cmd/gendb dbwrap/wrap_gen.go)
mkdir -p .build evidence
(cd mc && "$VERIF_GO" build -tags verif -o ../.build/vcheck ./cmd/vcheck)
(cd mc && "$VERIF_GO" test -c -tags verif -vet=off -o ../.build/c17.test ./pubsubmc)
(cd mc && "$VERIF_GO" build -race -tags verif -o ../.build/vcheck-race ./cmd/vcheck)
bin/build_prim.sh race
echo "setup ok: $(.build/vcheck 2>&1 | head -1)"
