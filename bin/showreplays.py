import json,sys,glob
for p in sorted(glob.glob('/verif/replays/*.json')):
    f=json.load(open(p))
    h=' '.join((f"{e['c']}:{e.get('op') or e['k']}") for e in (f.get('hist') or []))
    print(f['core']); print('   ',p.split('/')[-1],'N=',f['scenario']['n'],'init',f['scenario'].get('init'),'| hist:',h); print('   ',f['detail'][:400].replace('\n','\n    '))
