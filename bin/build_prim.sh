#!/bin/bash
# Builds the primitive-level explorer: the sync / sync/atomic imports of
# pkg/locker and pkg/cmap are replaced by scheduler-aware shims through a
# `go build -overlay` generated from the CURRENT files of the repository (the
# repository itself is not touched). usage: bin/build_prim.sh [race]
set -e
cd "$(dirname "$0")/.."
. bin/env.sh
VD="${VERIF_DIR:-$PWD}"
REPO="${VERIF_REPO:-/repo}"
mkdir -p "$VD/.build"
rm -rf "$VD/.build/overlay"
(cd mc && "$VERIF_GO" run ./cmd/genoverlay "$REPO" "$VD/.build/overlay" pkg/locker pkg/cmap) >/dev/null
(cd mc && "$VERIF_GO" build -tags verif -overlay "$VD/.build/overlay/overlay.json" -o "$VD/.build/vprim" ./cmd/vprim)
if [ "${1:-}" = "race" ]; then
  (cd mc && "$VERIF_GO" build -race -tags verif -overlay "$VD/.build/overlay/overlay.json" -o "$VD/.build/vprim-race" ./cmd/vprim)
fi
