# Sourced by every script: toolchain + offline module settings.
# The repository needs go >= 1.25 (go.mod says 1.25.0); the cached toolchain is
# invoked by path so that GOTOOLCHAIN switching is never needed.
export GOFLAGS=-mod=mod
export GOPROXY=off
export GOSUMDB=off
VERIF_GOROOT=/root/go/pkg/mod/golang.org/toolchain@v0.0.1-go1.25.0.linux-amd64
if [ ! -x "$VERIF_GOROOT/bin/go" ]; then
  VERIF_GOROOT="$(cd /repo && go env GOROOT)"
fi
export GOTOOLCHAIN=local
export GOROOT="$VERIF_GOROOT"
export PATH="$VERIF_GOROOT/bin:$PATH"
export VERIF_GO="$VERIF_GOROOT/bin/go"
