#!/usr/bin/env python3
"""Development-time helper (never run by a check): admit reviewed replay files
into known_findings.json.  usage: admit_findings.py <summary-prefix> replay.json..."""
import json,sys
kf=json.load(open('/verif/known_findings.json'))
prefix=sys.argv[1]
for p in sys.argv[2:]:
    f=json.load(open(p))
    core=f['core']
    if any(x['property']==f['property'] and x['core']==core for x in kf['findings']): continue
    h=' '.join((f"c{e['c']}:{e.get('op') or e['k']}") for e in (f.get('hist') or []))
    init='+'.join((f.get('scenario') or {}).get('init') or [])
    kf['findings'].append({'property':f['property'],'core':core,
        'summary':f"{prefix}; oracle={f['kind']} ({f['sig']}); minimal history: init {init}; {h}; quiescent round"})
json.dump(kf,open('/verif/known_findings.json','w'),indent=1)
print(len(kf['findings']),'findings')
