#!/usr/bin/env python3
"""Writes /verif/MANIFEST.json from the table below (development-time helper)."""
import json
H="H (mc/hist): bounded exhaustive history exploration on the real implementation"
checks={
 "C01":("exploration","H","every history of <=K edits and <=Y syncs per (data type x pair of edit kinds x client count) scenario, partial-order reduced, is executed on real client.Client replicas and the real in-process server and followed by the quiescent closure; no sync error, byte-identical replicas, equality with the server rebuild, equality whenever two replicas are at the same checkpoint","stateless bounded exhaustive enumeration of histories (DFS, partial-order reduction) on the implementation"),
 "C02":("exploration","H","every history with a late (snapshot-fed) attacher at any position, cache eviction at any position, snapshot threshold/interval in {(1,1),(2,1),(2,2)}; snapshot-fed and change-fed replicas and the server rebuild agree, clone==root, and the rebuild at EVERY serverSeq (cold, warm ascending, warm descending) equals a one-by-one replay of the stored log","bounded exhaustive history enumeration + differential oracle against independent log replay"),
 "C03":("exploration","H","every history over garbage-producing/-referencing edit kinds executed twice, GC on and GC off (document.WithDisableGC + SnapshotDisableGC): no sync/rebuild error, convergence, identical content in both worlds","bounded exhaustive history enumeration with twin-world (GC on/off) differential oracle"),
 "C04":("exploration","S+H","concurrent: all schedules with <=2 preemptions (Engine S: cooperative scheduler owning named-lock operations, storage calls and background tasks) of closed 2-3 handler harnesses that push, pull, attach and detach on one document; sequential: every bounded 3-client history; log gap-free/ordered/exactly-once-delivery oracle plus convergence on every execution","stateless exhaustive schedule enumeration with preemption bounding on the real handlers + bounded history enumeration"),
 "C05":("fault_enumeration","H","for every history of the family and every sync request in it: one execution per storage call of that request (discovered by a recording pass through the generated Backend.DB decorator) x {error before, error after the call took effect} plus response lost, each with and without an immediate identical retry; exactly-once log, convergence, replay equality, counters equal the fault-free twin","exhaustive single-fault enumeration over every storage call of every request of every bounded history"),
 "C06":("exploration","H","clock and minimum-vector clauses monitored on every execution of the scenario list (pairs, 3 clients, attach/detach, snapshots, disable_gc participant): per-change clock clauses on the stored log with the author's applied set recorded by the harness; at every response minVV <= every stored row and row <= replica vector at request time","bounded exhaustive history enumeration with per-execution monitors"),
 "C07":("exploration","P","all programs of length <=4 over each data type's call templates next to a plain Go reference model, all visible accessors compared after every call; plus all programs of length <=2 from non-initial states harvested through the real server","exhaustive enumeration of call programs against a reference model"),
 "C08":("exploration","P+H","every (prefix, failing update body, failure kind, failure position, follow-up) combination compared before/after and against an untouched twin; clone==root after every event of all bounded 2-client histories","exhaustive enumeration of failure positions + bounded history enumeration"),
 "C09":("exploration","H+M","every message produced by the explored histories is round-tripped (change packs, snapshots, version vectors, stored ChangeInfo, replay of the re-encoded log); for one message per distinct shape EVERY truncation, single-byte deletion and single structural mutation is fed to every decoder: no panic","exhaustive round-trip of harvested messages + deviation-bounded (1 mutation) exhaustive enumeration of hostile inputs"),
 "C10":("exploration","H","every history with <=2 compactions (normal and forced) at every position mixed with edits, syncs, detach/attach: guard iff attached, epoch increases, content kept, stale sync refused without log growth, stale detach succeeds, fresh attach sees server content","bounded exhaustive history enumeration with per-event oracles"),
 "C11":("model_checking","M","reference model of the documented lifecycle state machine; all RPC sequences of length <=4 over 2 clients x 2 documents replayed with raw stubs, plus breadth-first search over canonical model states to a fixpoint with every enabled event replayed on the real server; accept/reject, removed flag, no store into removed documents, version-vector row/status coupling","explicit-state BFS over a reference model with every transition replayed against the implementation"),
 "C12":("exploration","H","every history over presence set/clear/edit+presence, attach with initial presence, detach, deactivate, snapshot pulls, both values of disable_presence with the late attacher passing the opposite; AllPresences identical, only attached actors, no presence anywhere on presenceless documents","bounded exhaustive history enumeration"),
 "C13":("exploration","X","complete finite matrix procedure (from service descriptors) x credential x every subset of foreign ids/keys x UseDefaultProject; refusal codes, indistinguishability from non-existent ids, victim project's rows byte-identical, no content leak","exhaustive enumeration of a finite request matrix"),
 "C14":("exploration","P","all programs of <=3 content edits x all valid undo/redo words of length <=5 on one replica; recorded normalised contents are the reference; second set with styles/moves/sets must never fail and keep clone==root","exhaustive enumeration of edit programs x undo/redo words"),
 "C15":("exploration","H","every 2-client history with <=K edits from the C14 alphabet, <=U undo/redo calls, <=Y syncs, GC on: C01's oracle plus clone==root","bounded exhaustive history enumeration"),
 "C16":("exploration","S","all schedules with <=2 preemptions of closed harnesses of 2-3 real handler calls incl. Deactivate (cluster detach), Remove, forced Compact and background snapshot store; deadlock = no enabled thread while one is unfinished (RWMutex writer preference modelled); lock order doc->pull->attachment->push; C04 and C01 oracles on every schedule","stateless exhaustive schedule enumeration with preemption bounding (iterative context bounding) on the real handlers"),
 "C17":("exploration","Y","every call-level interleaving of subscribers' and publishers' programs and clock events on the real PubSub inside testing/synctest bubbles, times every subset of stalled consumers","exhaustive enumeration of interleavings under a virtual clock (testing/synctest)"),
 "C18":("exploration","H+G","every distinct document reached by the bounded histories and every generated YSON value (31 leaf/element values in 5 contexts + all ordered pairs) goes through FromCRDT -> Marshal -> Unmarshal -> SetYSON -> FromCRDT; forced server compaction must succeed","exhaustive enumeration of reachable documents (bounded histories) and of a YSON grammar"),
 "C19":("exploration","H","the five upstream tree matrices (1592 pairs) x both sync orders x {2 clients, + snapshot-fed third}: complete enumeration","complete enumeration of a finite matrix on the implementation"),
 "C20":("model_checking","M+H","ChangeStore: BFS over all event sequences (N<=4 changes) de-duplicated on the canonical state against a ground-truth table; pkg/cache: all sequences of length <=5 against a map; snapshot cache: every bounded history, rebuild through the cache at every point vs log replay","explicit-state BFS of the real data structure against a reference table + bounded history enumeration"),
}
notes={
 "C01":"memdb backend; bounds per scenario name (N,K,Y) listed in the evidence; Go map iteration inside the code under test is not controlled (violations re-run)",
}
m={
 "version":1,
 "setup_cmd":"bin/setup.sh",
 "hooks":{"guard":"verif","enable":"./check rebuilds /verif/mc against /repo's working tree with `go build -tags verif` on every invocation (go.mod and the Backend.DB decorator are regenerated from /repo first)",
   "baseline_off_cmd":"bin/baseline_off.sh","source_commits":["9814085c","2efffff1","1b09ec56","85ef03fc"],"add_only":True},
 "engines":[
  {"name":"H","path":"mc/hist","serves_properties":["C01","C02","C03","C05","C06","C08","C09","C10","C12","C15","C18","C19","C20"],"kind_free_text":"bounded exhaustive history exploration (edits x syncs x attach/detach x undo/redo x environment events x faults, partial-order reduced DFS) on real client.Client replicas and the real rpc.Server handler in-process over memdb"},
  {"name":"P","path":"mc/checks (c07,c08,c14)","serves_properties":["C07","C08","C14"],"kind_free_text":"exhaustive enumeration of single-replica call programs against plain Go reference models / recorded contents"},
  {"name":"M","path":"mc/checks (c11,c20)","serves_properties":["C11","C20"],"kind_free_text":"explicit-state breadth-first search over a reference model whose every transition is replayed on the implementation"},
  {"name":"S","path":"mc/sched","serves_properties":["C04","C16"],"kind_free_text":"cooperative scheduler for real goroutines: scheduling points at named-lock operations (verif trace hook), storage calls (generated Backend.DB decorator) and background tasks (verif spawn hook); named locks modelled with Go RWMutex semantics incl. writer preference; depth-first search over choice sequences with a preemption bound and deterministic prefix replay"},
  {"name":"Y","path":"mc/pubsubmc","serves_properties":["C17"],"kind_free_text":"testing/synctest bubbles (virtual clock) around the real PubSub; exhaustive enumeration of call-level interleavings; compiled as a test binary launched by the driver"},
  {"name":"X","path":"mc/checks (c13)","serves_properties":["C13"],"kind_free_text":"complete finite request matrix generated from the protobuf service descriptors"},
 ],
 "checks":[],"not_applicable":[],"notes":"known_findings.json lists genuine defects of the pinned tree that are recorded rather than repaired (and the repaired ones under 'fixed'); replays/ is written at run time"
}
for pid in sorted(checks):
    c=checks[pid]
    if c is None:
        m["not_applicable"].append({"property_id":pid,"reason":"check under construction in this session (Engine S: controlled scheduler); not claimed until it runs clean"})
        continue
    level,eng,text,tech=c
    m["checks"].append({"property_id":pid,"quick_cmd":f"./check {pid} quick","thorough_cmd":f"./check {pid} thorough","evidence_file":f"evidence/{pid}.json",
      "replay_cmd_template":"./check --replay {path}","engine":eng,
      "level_claimed":{"category":level,"text":text,"design_ref":f"DESIGN.md section 5 {pid}"},
      "level_note":notes.get(pid,"memdb backend (MongoDB is not reachable offline); small-scope bounds as reported per scenario in the evidence; an internal time budget ends a run with exhaustive:false and the list of incomplete scenarios"),
      "technique":tech})
json.dump(m,open('/verif/MANIFEST.json','w'),indent=1)
print(len(m['checks']),'checks',len(m['not_applicable']),'n/a')
