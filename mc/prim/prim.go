// Package prim explores the synchronisation primitives under the sync
// pipeline - pkg/locker (named RW locks with reference counting) and pkg/cmap
// (sharded concurrent map) - at the granularity of their own mutex and atomic
// operations. The binary is built with an overlay that replaces "sync" and
// "sync/atomic" inside those two packages by scheduler-aware shims
// (verifmc/vsync, verifmc/vatomic), so every Lock/RLock/TryLock and every
// atomic operation INSIDE the primitives is a scheduling point of the
// cooperative scheduler (verifmc/sched), and blocking follows the scheduler's
// model of Go's mutexes (writer preference included).
//
// Every scenario is a closed harness of 2-3 threads running 1-3 calls each on
// names / keys that are forced to collide. All schedules up to a preemption
// bound are executed depth-first with strict prefix replay.
//
// Oracles. locker: mutual exclusion per name (writers exclusive, readers
// shared), Unlock/RUnlock never report ErrNoSuchLock, every thread finishes
// (no deadlock), and - when no TryLock failed - no lock entry is left behind.
// cmap: the recorded call/return history of the single-key operations is
// linearizable w.r.t. a plain map (porcupine); Len/Keys/Values, which visit
// the shards one after the other and are NOT linearizable by design, must
// report every key that was present during the whole call and none that was
// absent during the whole call; the final content equals the model's for one
// of the linearizations (checked by a final Get of every key).
package prim

import (
	"fmt"
	"hash/fnv"
	"sort"
	"strings"
	"sync"
	"sync/atomic"
	"time"

	"github.com/anishathalye/porcupine"

	"github.com/yorkie-team/yorkie/pkg/cmap"
	"github.com/yorkie-team/yorkie/pkg/locker"

	"verifmc/sched"
)

// Scenario is one closed harness.
type Scenario struct {
	Kind    string   `json:"kind"` // "locker" | "cmap"
	Name    string   `json:"name"`
	Init    []string `json:"init,omitempty"` // cmap: keys present at the start (value 1)
	Threads []string `json:"threads"`        // one program per thread, calls separated by ' '
	Tier    string   `json:"-"`
}

// Locker programs: +Wa -Wa +Ra -Ra ?a (TryLock; the matching -Wa is skipped
// when it failed) cs (a scheduling point inside the critical section).
//
// cmap programs: set:k:v  ups:k (increment or 1)  get:k  del:k  delif:k:v
// (delete when the value equals v)  has:k  len  keys  vals.
// Keys a and b live in the same shard, c in another one.
func Scenarios(tier string) []Scenario {
	w := func(n string) string { return "+W" + n + " cs -W" + n }
	r := func(n string) string { return "+R" + n + " cs -R" + n }
	t := func(n string) string { return "?" + n + " cs -W" + n }
	out := []Scenario{
		{Kind: "locker", Name: "W||W||W", Threads: []string{w("a"), w("a"), w("a")}},
		{Kind: "locker", Name: "W||R||R", Threads: []string{w("a"), r("a"), r("a")}},
		{Kind: "locker", Name: "W;W||W", Threads: []string{w("a") + " " + w("a"), w("a")}},
		{Kind: "locker", Name: "W;W||R;R", Threads: []string{w("a") + " " + w("a"), r("a") + " " + r("a")}},
		{Kind: "locker", Name: "R;W||W||R", Threads: []string{r("a") + " " + w("a"), w("a"), r("a")}},
		{Kind: "locker", Name: "T||W||W", Threads: []string{t("a"), w("a"), w("a")}},
		{Kind: "locker", Name: "T;T||W;R", Threads: []string{t("a") + " " + t("a"), w("a") + " " + r("a")}},
		{Kind: "locker", Name: "nested a{b}||b||a{b}", Threads: []string{"+Wa +Wb cs -Wb -Wa", w("b"), "+Wa +Rb cs -Rb -Wa"}},
		{Kind: "locker", Name: "two names W(a);W(b)||W(b);W(a)", Threads: []string{w("a") + " " + w("b"), w("b") + " " + w("a")}},

		{Kind: "cmap", Name: "ups||ups||ups", Threads: []string{"ups:a", "ups:a", "ups:a"}},
		{Kind: "cmap", Name: "ups;get||ups;del||get", Init: []string{"a"}, Threads: []string{"ups:a get:a", "ups:a del:a", "get:a"}},
		{Kind: "cmap", Name: "set;get||del;set||has", Threads: []string{"set:a:5 get:a", "del:a set:a:7", "has:a"}},
		{Kind: "cmap", Name: "delif||ups||get", Init: []string{"a"}, Threads: []string{"delif:a:1", "ups:a", "get:a"}},
		{Kind: "cmap", Name: "same shard set(a)||set(b);del(a)||get(b);get(a)", Threads: []string{"set:a:1", "set:b:2 del:a", "get:b get:a"}},
		{Kind: "cmap", Name: "keys||set(c);del(a)", Init: []string{"a"}, Threads: []string{"keys", "set:c:1 del:a", "ups:b"}},
		{Kind: "cmap", Name: "len||ups(a)||ups(c)", Init: []string{"b"}, Threads: []string{"len", "ups:a", "ups:c"}},
		{Kind: "cmap", Name: "vals||del(b)||ups(c)", Init: []string{"b"}, Threads: []string{"vals", "del:b", "ups:c"}},
	}
	if tier == "thorough" {
		out = append(out,
			Scenario{Kind: "locker", Name: "W;W||W;W||R", Threads: []string{w("a") + " " + w("a"), w("a") + " " + w("a"), r("a")}},
			Scenario{Kind: "locker", Name: "R;R||W;W||T", Threads: []string{r("a") + " " + r("a"), w("a") + " " + w("a"), t("a")}},
			Scenario{Kind: "locker", Name: "W||W||R||R", Threads: []string{w("a"), w("a"), r("a"), r("a")}},
			Scenario{Kind: "cmap", Name: "ups;ups||ups;del||get;get", Threads: []string{"ups:a ups:a", "ups:a del:a", "get:a get:a"}},
			Scenario{Kind: "cmap", Name: "set||delif||ups||has", Init: []string{"a"}, Threads: []string{"set:a:3", "delif:a:3", "ups:a", "has:a"}},
		)
	}
	for i := range out {
		out[i].Tier = tier
	}
	return out
}

// keys a,b share a shard (32 shards, FNV-1a), c lives elsewhere
var keyA, keyB, keyC = func() (string, string, string) {
	sh := func(s string) uint32 { h := fnv.New32a(); _, _ = h.Write([]byte(s)); return h.Sum32() % 32 }
	a := "key-0"
	var b, c string
	for i := 1; b == "" || c == ""; i++ {
		k := fmt.Sprintf("key-%d", i)
		if sh(k) == sh(a) && b == "" {
			b = k
		} else if sh(k) != sh(a) && c == "" {
			c = k
		}
	}
	return a, b, c
}()

func realKey(k string) string {
	switch k {
	case "a":
		return keyA
	case "b":
		return keyB
	}
	return keyC
}

// yield is a scheduling point of the harness itself (inside a critical
// section); without a scheduler it gives other goroutines a chance.
func yield(x *sched.Exec, what string) {
	if x != nil {
		x.Yield(what, "")
		return
	}
	time.Sleep(time.Microsecond)
}

// ---------------------------------------------------------------- locker

type lockerWorld struct {
	l       *locker.Locker
	mu      sync.Mutex // free-running mode only touches the counters through atomics; mu guards viol
	writers map[string]*atomic.Int32
	readers map[string]*atomic.Int32
	viol    string
	tryFail atomic.Bool
}

func newLockerWorld() *lockerWorld {
	w := &lockerWorld{l: locker.New(), writers: map[string]*atomic.Int32{}, readers: map[string]*atomic.Int32{}}
	for _, n := range []string{"a", "b"} {
		w.writers[n] = &atomic.Int32{}
		w.readers[n] = &atomic.Int32{}
	}
	return w
}

func (w *lockerWorld) fail(format string, a ...any) {
	w.mu.Lock()
	if w.viol == "" {
		w.viol = fmt.Sprintf(format, a...)
	}
	w.mu.Unlock()
}

// runLockerProg executes one thread's program.
func (w *lockerWorld) runLockerProg(x *sched.Exec, prog string) {
	skip := map[string]bool{} // names whose TryLock failed: skip the matching release
	inside := 0
	for _, st := range strings.Fields(prog) {
		switch {
		case st == "cs":
			if inside > 0 {
				yield(x, "cs")
			}
		case strings.HasPrefix(st, "+W"):
			n := st[2:]
			w.l.Lock(n)
			if r, wr := w.readers[n].Load(), w.writers[n].Add(1); wr != 1 || r != 0 {
				w.fail("mutual exclusion: Lock(%s) returned while %d writer(s) and %d reader(s) hold it", n, wr-1, r)
			}
			inside++
		case strings.HasPrefix(st, "?"):
			n := st[1:]
			if !w.l.TryLock(n) {
				skip[n] = true
				w.tryFail.Store(true)
				continue
			}
			if r, wr := w.readers[n].Load(), w.writers[n].Add(1); wr != 1 || r != 0 {
				w.fail("mutual exclusion: TryLock(%s) succeeded while %d writer(s) and %d reader(s) hold it", n, wr-1, r)
			}
			inside++
		case strings.HasPrefix(st, "-W"):
			n := st[2:]
			if skip[n] {
				delete(skip, n)
				continue
			}
			w.writers[n].Add(-1)
			inside--
			if err := w.l.Unlock(n); err != nil {
				w.fail("Unlock(%s) by its holder: %v", n, err)
			}
		case strings.HasPrefix(st, "+R"):
			n := st[2:]
			w.l.RLock(n)
			w.readers[n].Add(1)
			if wr := w.writers[n].Load(); wr != 0 {
				w.fail("mutual exclusion: RLock(%s) returned while a writer holds it", n)
			}
			inside++
		case strings.HasPrefix(st, "-R"):
			n := st[2:]
			w.readers[n].Add(-1)
			inside--
			if err := w.l.RUnlock(n); err != nil {
				w.fail("RUnlock(%s) by its holder: %v", n, err)
			}
		}
	}
}

func (w *lockerWorld) final() string {
	if w.viol != "" {
		return w.viol
	}
	if !w.tryFail.Load() {
		if n := w.l.LenForVerif(); n != 0 {
			return fmt.Sprintf("lock entries left behind after every lock was released: %d", n)
		}
	}
	// the locker must still work for everybody
	for _, n := range []string{"a", "b"} {
		if !w.l.TryLock(n) {
			return fmt.Sprintf("lock %s cannot be taken after every holder released it", n)
		}
		if err := w.l.Unlock(n); err != nil {
			return fmt.Sprintf("Unlock(%s) after the window: %v", n, err)
		}
	}
	return ""
}

// ------------------------------------------------------------------ cmap

type mapOp struct {
	Op  string
	Key string
	Arg int
}

type mapOut struct {
	Val  int
	Ok   bool
	Keys []string
	N    int
}

type cmapWorld struct {
	m     *cmap.Map[string, int]
	clock atomic.Int64
	mu    sync.Mutex
	ops   []porcupine.Operation
	multi []multiRec
}

type multiRec struct {
	op        string
	call, ret int64
	keys      []string
	n         int
	thread    int
}

func newCmapWorld(init []string) *cmapWorld {
	w := &cmapWorld{m: cmap.New[string, int]()}
	for _, k := range init {
		w.m.Set(realKey(k), 1)
		t := w.clock.Add(1)
		w.ops = append(w.ops, porcupine.Operation{ClientId: 9, Input: mapOp{"set", k, 1}, Call: t, Output: mapOut{}, Return: w.clock.Add(1)})
	}
	return w
}

func (w *cmapWorld) runCmapProg(x *sched.Exec, thread int, prog string) {
	for _, st := range strings.Fields(prog) {
		f := strings.Split(st, ":")
		op := mapOp{Op: f[0]}
		if len(f) > 1 {
			op.Key = f[1]
		}
		if len(f) > 2 {
			fmt.Sscanf(f[2], "%d", &op.Arg)
		}
		rk := realKey(op.Key)
		call := w.clock.Add(1)
		var out mapOut
		switch op.Op {
		case "set":
			w.m.Set(rk, op.Arg)
		case "ups":
			out.Val = w.m.Upsert(rk, func(v int, exists bool) int {
				if !exists {
					return 1
				}
				return v + 1
			})
		case "get":
			out.Val, out.Ok = w.m.Get(rk)
		case "has":
			out.Ok = w.m.Has(rk)
		case "del":
			out.Ok = w.m.Delete(rk)
		case "delif":
			out.Ok = w.m.Delete(rk, func(v int, exists bool) bool { return exists && v == op.Arg })
		case "len":
			out.N = w.m.Len()
		case "keys":
			out.Keys = w.m.Keys()
			sort.Strings(out.Keys)
		case "vals":
			out.N = len(w.m.Values())
		}
		ret := w.clock.Add(1)
		w.mu.Lock()
		switch op.Op {
		case "len", "keys", "vals":
			w.multi = append(w.multi, multiRec{op: op.Op, call: call, ret: ret, keys: out.Keys, n: out.N, thread: thread})
		default:
			w.ops = append(w.ops, porcupine.Operation{ClientId: thread, Input: op, Call: call, Output: out, Return: ret})
		}
		w.mu.Unlock()
	}
}

var cmapModel = porcupine.Model{
	Init: func() interface{} { return map[string]int{} },
	Step: func(state, input, output interface{}) (bool, interface{}) {
		st := state.(map[string]int)
		in := input.(mapOp)
		out := output.(mapOut)
		cp := func() map[string]int {
			n := make(map[string]int, len(st)+1)
			for k, v := range st {
				n[k] = v
			}
			return n
		}
		v, ok := st[in.Key]
		switch in.Op {
		case "set":
			n := cp()
			n[in.Key] = in.Arg
			return true, n
		case "ups":
			n := cp()
			if ok {
				n[in.Key] = v + 1
			} else {
				n[in.Key] = 1
			}
			return out.Val == n[in.Key], n
		case "get":
			return out.Ok == ok && (!ok || out.Val == v), st
		case "has":
			return out.Ok == ok, st
		case "del":
			if out.Ok != ok {
				return false, st
			}
			n := cp()
			delete(n, in.Key)
			return true, n
		case "delif":
			want := ok && v == in.Arg
			if out.Ok != want {
				return false, st
			}
			if want {
				n := cp()
				delete(n, in.Key)
				return true, n
			}
			return true, st
		}
		return false, st
	},
	Equal: func(a, b interface{}) bool {
		x, y := a.(map[string]int), b.(map[string]int)
		if len(x) != len(y) {
			return false
		}
		for k, v := range x {
			if w, ok := y[k]; !ok || w != v {
				return false
			}
		}
		return true
	},
	DescribeOperation: func(input, output interface{}) string {
		return fmt.Sprintf("%v -> %v", input, output)
	},
}

func (w *cmapWorld) final() string {
	// a final read of every key, after everything, pins the final content
	for _, k := range []string{"a", "b", "c"} {
		call := w.clock.Add(1)
		v, ok := w.m.Get(realKey(k))
		w.ops = append(w.ops, porcupine.Operation{ClientId: 8, Input: mapOp{Op: "get", Key: k}, Call: call, Output: mapOut{Val: v, Ok: ok}, Return: w.clock.Add(1)})
	}
	if !porcupine.CheckOperations(cmapModel, w.ops) {
		var sb strings.Builder
		for _, o := range w.ops {
			fmt.Fprintf(&sb, " [%d,%d]T%d:%v->%v", o.Call, o.Return, o.ClientId, o.Input, o.Output)
		}
		return "not linearizable:" + sb.String()
	}
	// multi-shard reads: bounds from what was certainly present / absent
	for _, m := range w.multi {
		must, mustNot := map[string]bool{}, map[string]bool{}
		for _, k := range []string{"a", "b", "c"} {
			// certainly present during [call,ret]: some write of k returned before call and no delete of k was called before ret;
			// certainly absent: no write of k was called before ret, or a delete returned before call with no write called in between
			var lastWriteRet, firstDelCall, lastDelRet, anyWriteCallBeforeRet int64 = -1, -1, -1, -1
			for _, o := range w.ops {
				in := o.Input.(mapOp)
				if in.Key != k || o.ClientId == 8 {
					continue
				}
				switch in.Op {
				case "set", "ups":
					if o.Return < m.call && o.Return > lastWriteRet {
						lastWriteRet = o.Return
					}
					if o.Call < m.ret {
						anyWriteCallBeforeRet = o.Call
					}
				case "del", "delif":
					if o.Call < m.ret && (firstDelCall < 0 || o.Call < firstDelCall) {
						firstDelCall = o.Call
					}
					if o.Return < m.call && o.Return > lastDelRet {
						lastDelRet = o.Return
					}
				}
			}
			if lastWriteRet >= 0 && firstDelCall < 0 {
				must[k] = true
			}
			if anyWriteCallBeforeRet < 0 {
				mustNot[k] = true
			}
		}
		switch m.op {
		case "keys":
			got := map[string]bool{}
			for _, rk := range m.keys {
				for _, k := range []string{"a", "b", "c"} {
					if realKey(k) == rk {
						if got[k] {
							return fmt.Sprintf("Keys returned %s twice", k)
						}
						got[k] = true
					}
				}
			}
			for k := range must {
				if !got[k] {
					return fmt.Sprintf("Keys [%d,%d] misses key %s that was present during the whole call: %v", m.call, m.ret, k, m.keys)
				}
			}
			for k := range mustNot {
				if got[k] {
					return fmt.Sprintf("Keys [%d,%d] reports key %s that was never written: %v", m.call, m.ret, k, m.keys)
				}
			}
		case "len", "vals":
			if m.n < len(must) || m.n > 3-len(mustNot) {
				return fmt.Sprintf("%s [%d,%d] = %d outside [%d,%d] (keys certainly present / possibly present)", m.op, m.call, m.ret, m.n, len(must), 3-len(mustNot))
			}
		}
	}
	return ""
}

// ------------------------------------------------------------- execution

// RunOne executes one schedule (prefix, then default choices) of a scenario.
func RunOne(sc *Scenario, prefix []int, keepTrace bool) (*sched.Exec, string) {
	x := sched.NewExec(prefix)
	x.KeepTrace = keepTrace
	var final func() string
	switch sc.Kind {
	case "locker":
		w := newLockerWorld()
		for i, p := range sc.Threads {
			p := p
			x.Go(fmt.Sprintf("T%d[%s]", i, p), func() { w.runLockerProg(x, p) })
		}
		final = w.final
	case "cmap":
		w := newCmapWorld(sc.Init)
		for i, p := range sc.Threads {
			i, p := i, p
			x.Go(fmt.Sprintf("T%d[%s]", i, p), func() { w.runCmapProg(x, i, p) })
		}
		final = w.final
	}
	x.Run()
	if x.Aborted != "" || x.Deadlock != "" {
		return x, ""
	}
	for _, t := range x.Threads() {
		if t.Err != nil {
			return x, fmt.Sprintf("panic in %s: %v", t.Name, t.Err)
		}
	}
	return x, final()
}

// RunFree runs the scenario's thread bodies on real goroutines without the
// scheduler (for the -race pass); it returns the oracle verdict.
func RunFree(sc *Scenario) string {
	var wg sync.WaitGroup
	var final func() string
	start := make(chan struct{})
	switch sc.Kind {
	case "locker":
		if strings.Contains(sc.Name, "two names") {
			return "" // opposite acquisition orders of two names never overlap under the scheduler's programs, but sleep-free real runs are fine too; keep it simple
		}
		w := newLockerWorld()
		for _, p := range sc.Threads {
			p := p
			wg.Add(1)
			go func() { defer wg.Done(); <-start; w.runLockerProg(nil, p) }()
		}
		final = w.final
	case "cmap":
		w := newCmapWorld(sc.Init)
		for i, p := range sc.Threads {
			i, p := i, p
			wg.Add(1)
			go func() { defer wg.Done(); <-start; w.runCmapProg(nil, i, p) }()
		}
		final = w.final
	}
	close(start)
	done := make(chan struct{})
	go func() { wg.Wait(); close(done) }()
	select {
	case <-done:
	case <-time.After(60 * time.Second):
		return "hang: threads did not finish within 60 s"
	}
	return final()
}
