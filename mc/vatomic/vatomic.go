// Package vatomic stands in for "sync/atomic" inside the packages the overlay
// build rewrites: every operation is a scheduling point of the cooperative
// scheduler (on managed goroutines) followed by the real atomic operation.
package vatomic

import (
	"sync/atomic"
	"unsafe"

	"verifmc/sched"
)

func point(op string, p any) {
	if x := sched.Current(); x != nil {
		x.Yield("atomic."+op, x.NameOf(p))
	}
}

func AddInt32(addr *int32, delta int32) int32 {
	point("add", addr)
	return atomic.AddInt32(addr, delta)
}
func AddInt64(addr *int64, delta int64) int64 {
	point("add", addr)
	return atomic.AddInt64(addr, delta)
}
func AddUint32(addr *uint32, delta uint32) uint32 {
	point("add", addr)
	return atomic.AddUint32(addr, delta)
}
func AddUint64(addr *uint64, delta uint64) uint64 {
	point("add", addr)
	return atomic.AddUint64(addr, delta)
}
func LoadInt32(addr *int32) int32          { point("load", addr); return atomic.LoadInt32(addr) }
func LoadInt64(addr *int64) int64          { point("load", addr); return atomic.LoadInt64(addr) }
func LoadUint32(addr *uint32) uint32       { point("load", addr); return atomic.LoadUint32(addr) }
func LoadUint64(addr *uint64) uint64       { point("load", addr); return atomic.LoadUint64(addr) }
func StoreInt32(addr *int32, v int32)      { point("store", addr); atomic.StoreInt32(addr, v) }
func StoreInt64(addr *int64, v int64)      { point("store", addr); atomic.StoreInt64(addr, v) }
func StoreUint32(addr *uint32, v uint32)   { point("store", addr); atomic.StoreUint32(addr, v) }
func StoreUint64(addr *uint64, v uint64)   { point("store", addr); atomic.StoreUint64(addr, v) }
func SwapInt32(addr *int32, v int32) int32 { point("swap", addr); return atomic.SwapInt32(addr, v) }
func SwapInt64(addr *int64, v int64) int64 { point("swap", addr); return atomic.SwapInt64(addr, v) }
func CompareAndSwapInt32(addr *int32, o, n int32) bool {
	point("cas", addr)
	return atomic.CompareAndSwapInt32(addr, o, n)
}
func CompareAndSwapInt64(addr *int64, o, n int64) bool {
	point("cas", addr)
	return atomic.CompareAndSwapInt64(addr, o, n)
}
func CompareAndSwapUint32(addr *uint32, o, n uint32) bool {
	point("cas", addr)
	return atomic.CompareAndSwapUint32(addr, o, n)
}
func CompareAndSwapUint64(addr *uint64, o, n uint64) bool {
	point("cas", addr)
	return atomic.CompareAndSwapUint64(addr, o, n)
}
func LoadPointer(addr *unsafe.Pointer) unsafe.Pointer {
	point("load", addr)
	return atomic.LoadPointer(addr)
}
func StorePointer(addr *unsafe.Pointer, v unsafe.Pointer) {
	point("store", addr)
	atomic.StorePointer(addr, v)
}

// Int32 mirrors atomic.Int32.
type Int32 struct{ v atomic.Int32 }

func (a *Int32) Load() int32                    { point("load", a); return a.v.Load() }
func (a *Int32) Store(v int32)                  { point("store", a); a.v.Store(v) }
func (a *Int32) Add(d int32) int32              { point("add", a); return a.v.Add(d) }
func (a *Int32) Swap(v int32) int32             { point("swap", a); return a.v.Swap(v) }
func (a *Int32) CompareAndSwap(o, n int32) bool { point("cas", a); return a.v.CompareAndSwap(o, n) }

// Int64 mirrors atomic.Int64.
type Int64 struct{ v atomic.Int64 }

func (a *Int64) Load() int64                    { point("load", a); return a.v.Load() }
func (a *Int64) Store(v int64)                  { point("store", a); a.v.Store(v) }
func (a *Int64) Add(d int64) int64              { point("add", a); return a.v.Add(d) }
func (a *Int64) Swap(v int64) int64             { point("swap", a); return a.v.Swap(v) }
func (a *Int64) CompareAndSwap(o, n int64) bool { point("cas", a); return a.v.CompareAndSwap(o, n) }

// Uint32 mirrors atomic.Uint32.
type Uint32 struct{ v atomic.Uint32 }

func (a *Uint32) Load() uint32                    { point("load", a); return a.v.Load() }
func (a *Uint32) Store(v uint32)                  { point("store", a); a.v.Store(v) }
func (a *Uint32) Add(d uint32) uint32             { point("add", a); return a.v.Add(d) }
func (a *Uint32) Swap(v uint32) uint32            { point("swap", a); return a.v.Swap(v) }
func (a *Uint32) CompareAndSwap(o, n uint32) bool { point("cas", a); return a.v.CompareAndSwap(o, n) }

// Uint64 mirrors atomic.Uint64.
type Uint64 struct{ v atomic.Uint64 }

func (a *Uint64) Load() uint64                    { point("load", a); return a.v.Load() }
func (a *Uint64) Store(v uint64)                  { point("store", a); a.v.Store(v) }
func (a *Uint64) Add(d uint64) uint64             { point("add", a); return a.v.Add(d) }
func (a *Uint64) Swap(v uint64) uint64            { point("swap", a); return a.v.Swap(v) }
func (a *Uint64) CompareAndSwap(o, n uint64) bool { point("cas", a); return a.v.CompareAndSwap(o, n) }

// Bool mirrors atomic.Bool.
type Bool struct{ v atomic.Bool }

func (a *Bool) Load() bool                    { point("load", a); return a.v.Load() }
func (a *Bool) Store(v bool)                  { point("store", a); a.v.Store(v) }
func (a *Bool) Swap(v bool) bool              { point("swap", a); return a.v.Swap(v) }
func (a *Bool) CompareAndSwap(o, n bool) bool { point("cas", a); return a.v.CompareAndSwap(o, n) }

// Value mirrors atomic.Value.
type Value struct{ v atomic.Value }

func (a *Value) Load() any                    { point("load", a); return a.v.Load() }
func (a *Value) Store(v any)                  { point("store", a); a.v.Store(v) }
func (a *Value) Swap(v any) any               { point("swap", a); return a.v.Swap(v) }
func (a *Value) CompareAndSwap(o, n any) bool { point("cas", a); return a.v.CompareAndSwap(o, n) }

// Pointer mirrors atomic.Pointer.
type Pointer[T any] struct{ v atomic.Pointer[T] }

func (a *Pointer[T]) Load() *T                    { point("load", a); return a.v.Load() }
func (a *Pointer[T]) Store(v *T)                  { point("store", a); a.v.Store(v) }
func (a *Pointer[T]) Swap(v *T) *T                { point("swap", a); return a.v.Swap(v) }
func (a *Pointer[T]) CompareAndSwap(o, n *T) bool { point("cas", a); return a.v.CompareAndSwap(o, n) }
