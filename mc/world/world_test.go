package world

import (
	"context"
	"fmt"
	"testing"
	"time"

	"github.com/yorkie-team/yorkie/pkg/document"
	"github.com/yorkie-team/yorkie/pkg/document/json"
	"github.com/yorkie-team/yorkie/pkg/key"
)

func drain(d *document.Document) {
	go func() {
		for range d.Events() {
		}
	}()
}

func TestSmoke(t *testing.T) {
	t0 := time.Now()
	w, err := New(Options{UseDefaultProject: true})
	if err != nil {
		t.Fatal(err)
	}
	t.Logf("world: %v", time.Since(t0))
	p, err := w.NewProject("p-one", 1000, 1000)
	if err != nil {
		t.Fatal(err)
	}
	ctx := context.Background()
	t0 = time.Now()
	n := 2000
	for i := 0; i < n; i++ {
		k := key.Key(fmt.Sprintf("doc-%d", w.NextID()))
		c1, _ := w.Dial(p)
		c2, _ := w.Dial(p)
		if err := c1.Activate(ctx); err != nil {
			t.Fatal(err)
		}
		if err := c2.Activate(ctx); err != nil {
			t.Fatal(err)
		}
		d1 := document.New(k)
		d2 := document.New(k)
		drain(d1)
		drain(d2)
		if err := c1.Attach(ctx, d1); err != nil {
			t.Fatal(err)
		}
		if err := c2.Attach(ctx, d2); err != nil {
			t.Fatal(err)
		}
		_ = d1.Update(func(r *json.Object, p *document.Presence) error { r.SetNewArray("a").AddInteger(1, 2); return nil })
		_ = c1.Sync(ctx)
		_ = c2.Sync(ctx)
		_ = d2.Update(func(r *json.Object, p *document.Presence) error { r.GetArray("a").AddInteger(3); return nil })
		_ = c2.Sync(ctx)
		_ = c1.Sync(ctx)
		w.WaitBackground()
		if d1.Marshal() != d2.Marshal() || d1.Marshal() != `{"a":[1,2,3]}` {
			t.Fatalf("%s %s", d1.Marshal(), d2.Marshal())
		}
		if i == 0 {
			t.Logf("ids %s %s", c1.ID(), c2.ID())
		}
	}
	t.Logf("%d execs: %v per exec; requests=%d", n, time.Since(t0)/time.Duration(n), w.Transport.Requests.Load())
}
