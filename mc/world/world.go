// Package world closes the system under test in-process: one real backend on
// memdb, the real rpc.Server handler reached through a RoundTripper that calls
// ServeHTTP directly, and real client.Client / document.Document replicas.
package world

import (
	"bytes"
	"context"
	"encoding/json"
	"errors"
	"fmt"
	"io"
	"net/http"
	"net/http/httptest"
	"sync"
	"sync/atomic"

	"connectrpc.com/connect"
	"go.uber.org/zap"

	"github.com/yorkie-team/yorkie/api/types"
	"github.com/yorkie-team/yorkie/api/yorkie/v1/v1connect"
	"github.com/yorkie-team/yorkie/client"
	"github.com/yorkie-team/yorkie/server/backend"
	"github.com/yorkie-team/yorkie/server/backend/database"
	memdb "github.com/yorkie-team/yorkie/server/backend/database/memory"
	"github.com/yorkie-team/yorkie/server/backend/housekeeping"
	"github.com/yorkie-team/yorkie/server/backend/membership"
	"github.com/yorkie-team/yorkie/server/logging"
	"github.com/yorkie-team/yorkie/server/profiling/prometheus"
	"github.com/yorkie-team/yorkie/server/rpc"

	"verifmc/dbwrap"
)

// Addr is the pseudo address every in-process client dials.
const Addr = "http://inproc.verif"

// ErrInjected is returned by the transport for injected faults.
var ErrInjected = errors.New("verif: injected transport fault")

// Fault decides the fate of one HTTP round trip.
type Fault int

const (
	// FaultNone lets the request through.
	FaultNone Fault = iota
	// FaultDropRequest fails the round trip before the handler runs.
	FaultDropRequest
	// FaultDropResponse runs the handler and then loses the response.
	FaultDropResponse
)

// Transport is the in-process http.RoundTripper.
type Transport struct {
	mu      sync.Mutex
	handler http.Handler
	// FaultFn, when set, is consulted for every request.
	FaultFn func(req *http.Request) Fault
	// Observe, when set, sees every (procedure, request body, status, response body).
	Observe func(path string, reqBody []byte, status int, respBody []byte)
	// Requests counts served requests.
	Requests atomic.Int64
	// Panics counts handler panics converted into 500 responses.
	Panics atomic.Int64
}

// RoundTrip implements http.RoundTripper.
func (t *Transport) RoundTrip(req *http.Request) (*http.Response, error) {
	t.mu.Lock()
	h := t.handler
	ff := t.FaultFn
	obs := t.Observe
	t.mu.Unlock()
	if h == nil {
		return nil, fmt.Errorf("verif transport: no handler bound")
	}
	fault := FaultNone
	if ff != nil {
		fault = ff(req)
	}
	if fault == FaultDropRequest {
		return nil, ErrInjected
	}
	var body []byte
	if req.Body != nil {
		b, err := io.ReadAll(req.Body)
		if err != nil {
			return nil, err
		}
		_ = req.Body.Close()
		body = b
	}
	r2 := req.Clone(req.Context())
	// No response compression: it only costs CPU in-process.
	r2.Header.Del("Accept-Encoding")
	r2.Header.Del("Connect-Accept-Encoding")
	r2.Header.Del("Grpc-Accept-Encoding")
	r2.Body = io.NopCloser(bytes.NewReader(body))
	r2.RequestURI = req.URL.RequestURI()
	rec := httptest.NewRecorder()
	func() {
		// net/http recovers a panicking handler and aborts the connection; the
		// in-process transport reports it as a distinguishable 500 instead of
		// dying, so that the checks can name the request that caused it.
		defer func() {
			if p := recover(); p != nil {
				t.Panics.Add(1)
				rec = httptest.NewRecorder()
				rec.WriteHeader(500)
				msg, _ := json.Marshal(fmt.Sprint(p))
				_, _ = rec.WriteString(`{"code":"handler_panic","message":` + string(msg) + `}`)
			}
		}()
		h.ServeHTTP(rec, r2)
	}()
	t.Requests.Add(1)
	res := rec.Result()
	if obs != nil {
		rb, _ := io.ReadAll(res.Body)
		res.Body = io.NopCloser(bytes.NewReader(rb))
		obs(req.URL.Path, body, res.StatusCode, rb)
	}
	if fault == FaultDropResponse {
		return nil, ErrInjected
	}
	res.Request = req
	return res, nil
}

// SetHandler binds the handler.
func (t *Transport) SetHandler(h http.Handler) {
	t.mu.Lock()
	t.handler = h
	t.mu.Unlock()
}

// Options configures a World.
type Options struct {
	UseDefaultProject bool
	SnapshotCacheSize int
	ClusterSecret     string
	// NoTTLJanitors sets the TTL caches to zero so that no immortal janitor
	// goroutine is started (needed inside a synctest bubble).
	NoTTLJanitors bool
}

// World is one backend + server.
type World struct {
	BE        *backend.Backend
	Server    *rpc.Server
	Transport *Transport
	HTTP      *http.Client
	MemDB     *memdb.DB
	DBW       *dbwrap.DB
	Owner     types.ID
	Default   *types.Project
	seq       atomic.Int64
}

var installOnce sync.Once
var globalTransport = &Transport{}

// GlobalTransport returns the transport installed as http.DefaultTransport.
func GlobalTransport() *Transport { return globalTransport }

func init() {
	_ = logging.SetLogLevel("fatal")
}

// New creates a world and installs its transport as http.DefaultTransport
// (client.Client uses a bare http.Client).
func New(opts Options) (*World, error) {
	installOnce.Do(func() {
		http.DefaultTransport = globalTransport
	})
	met, err := prometheus.NewMetrics()
	if err != nil {
		return nil, err
	}
	if opts.SnapshotCacheSize == 0 {
		opts.SnapshotCacheSize = 1000
	}
	ttl := "10s"
	if opts.NoTTLJanitors {
		ttl = "0s"
	}
	conf := &backend.Config{
		AdminUser:                     "admin",
		AdminPassword:                 "admin",
		AdminTokenDuration:            "24h",
		UseDefaultProject:             opts.UseDefaultProject,
		SecretKey:                     "verif-secret",
		SnapshotCacheSize:             opts.SnapshotCacheSize,
		AuthWebhookCacheSize:          100,
		AuthWebhookCacheTTL:           ttl,
		GatewayAddr:                   "inproc.verif",
		RPCAddr:                       "inproc.verif",
		Hostname:                      "verif",
		ChannelSessionTTL:             "60s",
		ChannelSessionCleanupInterval: "10s",
		ChannelSessionCountCacheTTL:   ttl,
		ChannelSessionCountCacheSize:  100,
		ClusterRPCTimeout:             "600s",
		ClusterClientTimeout:          "600s",
		ClusterClientPoolSize:         1,
		MaxConcurrentClusterRPCs:      100,
		ClusterSecret:                 opts.ClusterSecret,
	}
	be, err := backend.New(conf, nil,
		&membership.Config{LeaseDuration: "15s", RenewalInterval: "5s"},
		&housekeeping.Config{Interval: "1h", CandidatesLimit: 10, CompactionMinChanges: 1},
		met, nil, nil)
	if err != nil {
		return nil, err
	}
	srv, err := rpc.NewServer(&rpc.Config{Port: 0, ReadHeaderTimeout: "10s", IdleTimeout: "10s"}, be)
	if err != nil {
		return nil, err
	}
	w := &World{BE: be, Server: srv, Transport: globalTransport}
	w.Transport.SetHandler(srv.HandlerForVerif())
	w.HTTP = &http.Client{Transport: w.Transport}
	w.MemDB = be.DB.(*memdb.DB)
	// The storage seam: Backend.DB is an exported interface field; the
	// decorator is transparent while its hooks are nil.
	w.DBW = dbwrap.Wrap(be.DB)
	be.DB = w.DBW

	cc, err := be.ClusterClient()
	if err != nil {
		return nil, err
	}
	cc.RebindForVerif(w.HTTP, Addr)

	ctx := context.Background()
	if opts.UseDefaultProject {
		pi, err := be.DB.FindProjectInfoByID(ctx, database.DefaultProjectID)
		if err != nil {
			return nil, err
		}
		w.Default = pi.ToProject()
		w.Owner = pi.Owner
	} else {
		u, err := be.DB.CreateUserInfo(ctx, "verifowner", "pw-hash")
		if err != nil {
			return nil, err
		}
		w.Owner = u.ID
	}
	return w, nil
}

// Bind makes this world the one the process-wide in-process transport serves
// (several worlds may exist in one process; only one is served at a time).
func (w *World) Bind() { w.Transport.SetHandler(w.Server.HandlerForVerif()) }

// Close shuts the backend down.
func (w *World) Close() {
	_ = w.BE.Shutdown()
}

// NewProject creates a project with the given snapshot settings.
func (w *World) NewProject(name string, threshold, interval int64) (*types.Project, error) {
	ctx := context.Background()
	info, err := w.BE.DB.CreateProjectInfo(ctx, name, w.Owner)
	if err != nil {
		return nil, err
	}
	info, err = w.BE.DB.UpdateProjectInfo(ctx, info.ID, &types.UpdatableProjectFields{
		SnapshotThreshold: &threshold,
		SnapshotInterval:  &interval,
	})
	if err != nil {
		return nil, err
	}
	return info.ToProject(), nil
}

// NextID returns a fresh number for naming documents.
func (w *World) NextID() int64 { return w.seq.Add(1) }

// Dial returns a real SDK client for the project.
func (w *World) Dial(p *types.Project, opts ...client.Option) (*client.Client, error) {
	o := []client.Option{client.WithLogger(zap.NewNop())}
	if p != nil {
		o = append(o, client.WithAPIKey(p.PublicKey))
	}
	o = append(o, opts...)
	return client.Dial(Addr, o...)
}

// Raw returns a raw connect stub for the Yorkie service authenticated for p.
func (w *World) Raw(p *types.Project) v1connect.YorkieServiceClient {
	var o []connect.ClientOption
	if p != nil {
		o = append(o, connect.WithInterceptors(client.NewAuthInterceptor(p.PublicKey, "")))
	}
	return v1connect.NewYorkieServiceClient(w.HTTP, Addr, o...)
}

// WaitBackground waits for publish/snapshot goroutines of finished requests.
func (w *World) WaitBackground() { w.BE.WaitBackgroundForVerif() }

// PurgeSnapshotCache empties the snapshot cache.
func (w *World) PurgeSnapshotCache() { w.BE.Cache.Snapshot.Purge() }
