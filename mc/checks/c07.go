package checks

import (
	"encoding/json"
	"fmt"
	"math"
	"sort"
	"strings"
	"time"
	"unicode/utf16"

	"github.com/yorkie-team/yorkie/pkg/document"
	"github.com/yorkie-team/yorkie/pkg/document/crdt"
	yjson "github.com/yorkie-team/yorkie/pkg/document/json"
	"github.com/yorkie-team/yorkie/pkg/key"

	"verifmc/hist"
)

// C07: every editing call does locally what its index API says. The reference
// models are plain Go values; the concrete arguments of each call are computed
// from the MODEL (index classes first/mid/last), then the same call is made on
// the real document and the visible values are compared.

// ---------------------------------------------------------------- model

type mChar struct {
	u     uint16
	attrs map[string]string
}

type mPara struct {
	text  []uint16
	attrs map[string]string
}

type model struct {
	// arrMoved[i]: element i has been moved at least once (classification of
	// findings only; it does not influence the expected value).
	arrMoved       []bool
	lastSetOnMoved bool
	arr            []string // JSON of each element
	txt            []mChar
	obj            map[string]string // key -> JSON value
	cInt           int32
	cLng           int64
	tree           []mPara
	t2             []string // nested tree as a flat token list (c07_tree2.go)
}

func newModel() *model {
	m := &model{obj: map[string]string{}}
	return m
}

func (m *model) marshalArr() string { return "[" + strings.Join(m.arr, ",") + "]" }

func (m *model) marshalObj() string {
	ks := make([]string, 0, len(m.obj))
	for k := range m.obj {
		ks = append(ks, k)
	}
	sort.Strings(ks)
	var parts []string
	for _, k := range ks {
		parts = append(parts, fmt.Sprintf("%q:%s", k, m.obj[k]))
	}
	return "{" + strings.Join(parts, ",") + "}"
}

func attrsKey(a map[string]string) string {
	ks := make([]string, 0, len(a))
	for k := range a {
		ks = append(ks, k)
	}
	sort.Strings(ks)
	var sb strings.Builder
	for _, k := range ks {
		fmt.Fprintf(&sb, "%s=%s;", k, a[k])
	}
	return sb.String()
}

// textRuns renders the model text as (attrs, string) runs.
func (m *model) textRuns() string {
	var sb strings.Builder
	i := 0
	for i < len(m.txt) {
		j := i
		ak := attrsKey(m.txt[i].attrs)
		var us []uint16
		for j < len(m.txt) && attrsKey(m.txt[j].attrs) == ak {
			us = append(us, m.txt[j].u)
			j++
		}
		fmt.Fprintf(&sb, "[%s|%s]", ak, string(utf16.Decode(us)))
		i = j
	}
	return sb.String()
}

// realTextRuns normalises Text.Marshal() (chunks) into the same run format.
func realTextRuns(marshal string) (string, error) {
	var chunks []struct {
		Attrs map[string]string `json:"attrs"`
		Val   string            `json:"val"`
	}
	if err := json.Unmarshal([]byte(marshal), &chunks); err != nil {
		return "", fmt.Errorf("%w in %s", err, marshal)
	}
	var sb strings.Builder
	i := 0
	for i < len(chunks) {
		j := i
		ak := attrsKey(chunks[i].Attrs)
		val := ""
		for j < len(chunks) && attrsKey(chunks[j].Attrs) == ak {
			val += chunks[j].Val
			j++
		}
		if val != "" {
			fmt.Fprintf(&sb, "[%s|%s]", ak, val)
		}
		i = j
	}
	return sb.String(), nil
}

func (m *model) treeXML() string {
	var sb strings.Builder
	sb.WriteString("<doc>")
	for _, p := range m.tree {
		sb.WriteString("<p")
		ks := make([]string, 0, len(p.attrs))
		for k := range p.attrs {
			ks = append(ks, k)
		}
		sort.Strings(ks)
		for _, k := range ks {
			fmt.Fprintf(&sb, ` %s="%s"`, k, p.attrs[k])
		}
		sb.WriteString(">")
		sb.WriteString(string(utf16.Decode(p.text)))
		sb.WriteString("</p>")
	}
	sb.WriteString("</doc>")
	return sb.String()
}

func (m *model) treeLen() int {
	n := 0
	for _, p := range m.tree {
		n += 2 + len(p.text)
	}
	return n
}

// ----------------------------------------------------------- call templates

// A tmpl is one call template: resolve decides the concrete call from the model
// (nil if not applicable), applying it to model and real document.
type tmpl struct {
	name string
	do   func(m *model, r *yjson.Object, v int) bool // false = not applicable
}

func cp(a map[string]string) map[string]string {
	out := map[string]string{}
	for k, v := range a {
		out[k] = v
	}
	return out
}

func arrIdx(n int, cls string) int {
	switch cls {
	case "0":
		return 0
	case "m":
		return n / 2
	default:
		return n - 1
	}
}

func arrTmpls() []tmpl {
	var out []tmpl
	out = append(out, tmpl{"push", func(m *model, r *yjson.Object, v int) bool {
		m.arr = append(m.arr, fmt.Sprint(v))
		m.arrMoved = append(m.arrMoved, false)
		r.GetArray("a").AddInteger(v)
		return true
	}})
	out = append(out, tmpl{"pushstr", func(m *model, r *yjson.Object, v int) bool {
		m.arr = append(m.arr, fmt.Sprintf("%q", fmt.Sprintf("s%d", v)))
		m.arrMoved = append(m.arrMoved, false)
		r.GetArray("a").AddString(fmt.Sprintf("s%d", v))
		return true
	}})
	for _, c := range []string{"0", "m", "L"} {
		c := c
		out = append(out, tmpl{"insAfter" + c, func(m *model, r *yjson.Object, v int) bool {
			n := len(m.arr)
			if n == 0 {
				return false
			}
			i := arrIdx(n, c)
			m.arr = append(m.arr[:i+1], append([]string{fmt.Sprint(v)}, m.arr[i+1:]...)...)
			m.arrMoved = append(m.arrMoved[:i+1], append([]bool{false}, m.arrMoved[i+1:]...)...)
			r.GetArray("a").InsertIntegerAfter(i, v)
			return true
		}})
		out = append(out, tmpl{"del" + c, func(m *model, r *yjson.Object, v int) bool {
			n := len(m.arr)
			if n == 0 {
				return false
			}
			i := arrIdx(n, c)
			m.arr = append(m.arr[:i:i], m.arr[i+1:]...)
			m.arrMoved = append(m.arrMoved[:i:i], m.arrMoved[i+1:]...)
			r.GetArray("a").Delete(i)
			return true
		}})
		out = append(out, tmpl{"set" + c, func(m *model, r *yjson.Object, v int) bool {
			n := len(m.arr)
			if n == 0 {
				return false
			}
			i := arrIdx(n, c)
			m.arr[i] = fmt.Sprint(v)
			m.lastSetOnMoved = m.arrMoved[i]
			m.arrMoved[i] = false
			r.GetArray("a").SetInteger(i, v)
			return true
		}})
	}
	mv := func(name string, prevC, tgtC string) {
		out = append(out, tmpl{name, func(m *model, r *yjson.Object, v int) bool {
			n := len(m.arr)
			if n < 2 {
				return false
			}
			p, t := arrIdx(n, prevC), arrIdx(n, tgtC)
			if p == t {
				return false
			}
			// move element t to just after element p
			e := m.arr[t]
			rest := append(append([]string{}, m.arr[:t]...), m.arr[t+1:]...)
			restM := append(append([]bool{}, m.arrMoved[:t]...), m.arrMoved[t+1:]...)
			var res []string
			var resM []bool
			done := false
			for idx, x := range rest {
				res = append(res, x)
				resM = append(resM, restM[idx])
				orig := idx
				if idx >= t {
					orig = idx + 1
				}
				if orig == p && !done {
					res = append(res, e)
					resM = append(resM, true)
					done = true
				}
			}
			m.arr = res
			m.arrMoved = resM
			r.GetArray("a").MoveAfterByIndex(p, t)
			return true
		}})
	}
	mv("mv0afterL", "L", "0")
	mv("mvLafter0", "0", "L")
	mv("mvMafter0", "0", "m")
	mv("mv0afterM", "m", "0")
	out = append(out, tmpl{"moveFrontL", func(m *model, r *yjson.Object, v int) bool {
		n := len(m.arr)
		if n < 2 {
			return false
		}
		e := m.arr[n-1]
		m.arr = append([]string{e}, m.arr[:n-1]...)
		m.arrMoved = append([]bool{true}, m.arrMoved[:n-1]...)
		a := r.GetArray("a")
		a.MoveFront(a.Get(n - 1).CreatedAt())
		return true
	}})
	// MoveBefore(next, x): x ends up immediately before next
	out = append(out, tmpl{"moveLbefore0", func(m *model, r *yjson.Object, v int) bool {
		n := len(m.arr)
		if n < 2 {
			return false
		}
		e := m.arr[n-1]
		m.arr = append([]string{e}, m.arr[:n-1]...)
		m.arrMoved = append([]bool{true}, m.arrMoved[:n-1]...)
		a := r.GetArray("a")
		a.MoveBefore(a.Get(0).CreatedAt(), a.Get(n-1).CreatedAt())
		return true
	}})
	out = append(out, tmpl{"move0beforeL", func(m *model, r *yjson.Object, v int) bool {
		n := len(m.arr)
		if n < 3 {
			return false
		}
		e := m.arr[0]
		rest := append([]string{}, m.arr[1:n-1]...)
		restM := append([]bool{}, m.arrMoved[1:n-1]...)
		m.arr = append(append(rest, e), m.arr[n-1])
		m.arrMoved = append(append(restM, true), m.arrMoved[n-1])
		a := r.GetArray("a")
		a.MoveBefore(a.Get(n-1).CreatedAt(), a.Get(0).CreatedAt())
		return true
	}})
	out = append(out, tmpl{"moveLast0", func(m *model, r *yjson.Object, v int) bool {
		n := len(m.arr)
		if n < 2 {
			return false
		}
		e := m.arr[0]
		m.arr = append(append([]string{}, m.arr[1:]...), e)
		m.arrMoved = append(append([]bool{}, m.arrMoved[1:]...), true)
		a := r.GetArray("a")
		a.MoveLast(a.Get(0).CreatedAt())
		return true
	}})
	return out
}

func insideSurrogate(t []mChar, pos int) bool {
	if pos <= 0 || pos >= len(t) {
		return false
	}
	return utf16.IsSurrogate(rune(t[pos-1].u)) && t[pos-1].u >= 0xd800 && t[pos-1].u < 0xdc00
}

func txtTmpls() []tmpl {
	var out []tmpl
	pos := func(n int, c string) int {
		switch c {
		case "0":
			return 0
		case "q":
			return n / 4
		case "m":
			return n / 2
		case "t":
			return (3 * n) / 4
		default:
			return n
		}
	}
	edit := func(name, fc, tc, content string, attrs map[string]string) {
		out = append(out, tmpl{name, func(m *model, r *yjson.Object, v int) bool {
			n := len(m.txt)
			f, t := pos(n, fc), pos(n, tc)
			if f > t || (f == t && content == "") {
				return false
			}
			if insideSurrogate(m.txt, f) || insideSurrogate(m.txt, t) {
				return false
			}
			c := strings.ReplaceAll(content, "#", letterOf(v))
			var ins []mChar
			for _, u := range utf16.Encode([]rune(c)) {
				ins = append(ins, mChar{u: u, attrs: cp(attrs)})
			}
			m.txt = append(append(append([]mChar{}, m.txt[:f]...), ins...), m.txt[t:]...)
			if attrs != nil {
				r.GetText("t").Edit(f, t, c, attrs)
			} else {
				r.GetText("t").Edit(f, t, c)
			}
			return true
		}})
	}
	edit("ins0", "0", "0", "#", nil)
	edit("insM", "m", "m", "#", nil)
	edit("insE", "E", "E", "#", nil)
	edit("ins2Q", "q", "q", "#x", nil)
	edit("insEmojiM", "m", "m", "😀", nil)
	edit("insAttrT", "t", "t", "#", map[string]string{"b": "1"})
	edit("delFront", "0", "q", "", nil)
	edit("delMid", "q", "t", "", nil)
	edit("delBack", "t", "E", "", nil)
	edit("delAll", "0", "E", "", nil)
	edit("repMid", "q", "t", "#", nil)
	edit("repHead", "0", "m", "#y", nil)
	style := func(name, fc, tc, k string) {
		out = append(out, tmpl{name, func(m *model, r *yjson.Object, v int) bool {
			n := len(m.txt)
			f, t := pos(n, fc), pos(n, tc)
			if f >= t || insideSurrogate(m.txt, f) || insideSurrogate(m.txt, t) {
				return false
			}
			for i := f; i < t; i++ {
				a := cp(m.txt[i].attrs)
				a[k] = fmt.Sprint(v)
				m.txt[i].attrs = a
			}
			r.GetText("t").Style(f, t, map[string]string{k: fmt.Sprint(v)})
			return true
		}})
	}
	style("styHead", "0", "m", "b")
	style("styMid", "q", "t", "i")
	style("styAll", "0", "E", "b")
	return out
}

func letterOf(v int) string { return string(rune('A' + v%26)) }

func objTmpls() []tmpl {
	var out []tmpl
	for _, k := range []string{"k1", "k2"} {
		k := k
		out = append(out, tmpl{"setInt." + k, func(m *model, r *yjson.Object, v int) bool {
			m.obj[k] = fmt.Sprint(v)
			r.GetObject("o").SetInteger(k, v)
			return true
		}})
		out = append(out, tmpl{"setStr." + k, func(m *model, r *yjson.Object, v int) bool {
			m.obj[k] = fmt.Sprintf("%q", fmt.Sprintf("s%d", v))
			r.GetObject("o").SetString(k, fmt.Sprintf("s%d", v))
			return true
		}})
		out = append(out, tmpl{"del." + k, func(m *model, r *yjson.Object, v int) bool {
			if _, ok := m.obj[k]; !ok {
				return false
			}
			delete(m.obj, k)
			r.GetObject("o").Delete(k)
			return true
		}})
		out = append(out, tmpl{"setObj." + k, func(m *model, r *yjson.Object, v int) bool {
			m.obj[k] = fmt.Sprintf(`{"x":%d}`, v)
			r.GetObject("o").SetNewObject(k).SetInteger("x", v)
			return true
		}})
		out = append(out, tmpl{"setArr." + k, func(m *model, r *yjson.Object, v int) bool {
			m.obj[k] = fmt.Sprintf(`[%d,%d]`, v, v+1)
			r.GetObject("o").SetNewArray(k).AddInteger(v, v+1)
			return true
		}})
	}
	out = append(out, tmpl{"setBool.k1", func(m *model, r *yjson.Object, v int) bool {
		m.obj["k1"] = "true"
		r.GetObject("o").SetBool("k1", true)
		return true
	}})
	out = append(out, tmpl{"setNull.k2", func(m *model, r *yjson.Object, v int) bool {
		m.obj["k2"] = "null"
		r.GetObject("o").SetNull("k2")
		return true
	}})
	return out
}

func cntTmpls() []tmpl {
	var out []tmpl
	inc := func(name string, operand any, i32 int32, i64 int64) {
		out = append(out, tmpl{"c." + name, func(m *model, r *yjson.Object, v int) bool {
			m.cInt += i32
			r.GetCounter("c").Increase(operand)
			return true
		}})
		out = append(out, tmpl{"cl." + name, func(m *model, r *yjson.Object, v int) bool {
			m.cLng += i64
			r.GetCounter("cl").Increase(operand)
			return true
		}})
	}
	big := int64(math.MaxInt32) + 5
	inc("inc1", 1, 1, 1)
	inc("dec3", -3, -3, -3)
	inc("incMax32", math.MaxInt32, math.MaxInt32, math.MaxInt32)
	inc("incMin32", math.MinInt32, math.MinInt32, math.MinInt32)
	inc("incBig64", big, int32(big), big)
	max64 := int64(math.MaxInt64)
	inc("incMax64", max64, int32(max64), max64)
	inc("incF", 2.7, 2, 2)
	inc("incNegF", -2.7, -2, -2)
	return out
}

func treeTmpls() []tmpl {
	var out []tmpl
	pidx := func(n int, c string) int {
		if c == "0" {
			return 0
		}
		return n - 1
	}
	for _, c := range []string{"0", "L"} {
		c := c
		out = append(out, tmpl{"insText0@" + c, func(m *model, r *yjson.Object, v int) bool {
			if len(m.tree) == 0 {
				return false
			}
			i := pidx(len(m.tree), c)
			u := utf16.Encode([]rune(letterOf(v)))
			m.tree[i].text = append(append([]uint16{}, u...), m.tree[i].text...)
			r.GetTree("tr").EditByPath([]int{i, 0}, []int{i, 0}, &yjson.TreeNode{Type: "text", Value: letterOf(v)}, 0)
			return true
		}})
		out = append(out, tmpl{"insTextMid@" + c, func(m *model, r *yjson.Object, v int) bool {
			if len(m.tree) == 0 {
				return false
			}
			i := pidx(len(m.tree), c)
			o := len(m.tree[i].text) / 2
			u := utf16.Encode([]rune(letterOf(v)))
			t := m.tree[i].text
			m.tree[i].text = append(append(append([]uint16{}, t[:o]...), u...), t[o:]...)
			r.GetTree("tr").EditByPath([]int{i, o}, []int{i, o}, &yjson.TreeNode{Type: "text", Value: letterOf(v)}, 0)
			return true
		}})
		out = append(out, tmpl{"insTextEnd@" + c, func(m *model, r *yjson.Object, v int) bool {
			if len(m.tree) == 0 {
				return false
			}
			i := pidx(len(m.tree), c)
			o := len(m.tree[i].text)
			m.tree[i].text = append(m.tree[i].text, utf16.Encode([]rune(letterOf(v)))...)
			r.GetTree("tr").EditByPath([]int{i, o}, []int{i, o}, &yjson.TreeNode{Type: "text", Value: letterOf(v)}, 0)
			return true
		}})
		out = append(out, tmpl{"delText1@" + c, func(m *model, r *yjson.Object, v int) bool {
			if len(m.tree) == 0 {
				return false
			}
			i := pidx(len(m.tree), c)
			if len(m.tree[i].text) == 0 {
				return false
			}
			o := len(m.tree[i].text) / 2
			if o == len(m.tree[i].text) {
				o--
			}
			t := m.tree[i].text
			m.tree[i].text = append(append([]uint16{}, t[:o]...), t[o+1:]...)
			r.GetTree("tr").EditByPath([]int{i, o}, []int{i, o + 1}, nil, 0)
			return true
		}})
		out = append(out, tmpl{"delP@" + c, func(m *model, r *yjson.Object, v int) bool {
			if len(m.tree) == 0 {
				return false
			}
			i := pidx(len(m.tree), c)
			m.tree = append(append([]mPara{}, m.tree[:i]...), m.tree[i+1:]...)
			r.GetTree("tr").EditByPath([]int{i}, []int{i + 1}, nil, 0)
			return true
		}})
		out = append(out, tmpl{"style@" + c, func(m *model, r *yjson.Object, v int) bool {
			if len(m.tree) == 0 {
				return false
			}
			i := pidx(len(m.tree), c)
			a := cp(m.tree[i].attrs)
			a["b"] = fmt.Sprint(v)
			m.tree[i].attrs = a
			r.GetTree("tr").StyleByPath([]int{i}, []int{i + 1}, map[string]string{"b": fmt.Sprint(v)})
			return true
		}})
		out = append(out, tmpl{"rmstyle@" + c, func(m *model, r *yjson.Object, v int) bool {
			if len(m.tree) == 0 {
				return false
			}
			i := pidx(len(m.tree), c)
			a := cp(m.tree[i].attrs)
			delete(a, "b")
			m.tree[i].attrs = a
			r.GetTree("tr").RemoveStyleByPath([]int{i}, []int{i + 1}, []string{"b"})
			return true
		}})
	}
	for _, c := range []string{"0", "1", "E"} {
		c := c
		out = append(out, tmpl{"insP@" + c, func(m *model, r *yjson.Object, v int) bool {
			n := len(m.tree)
			i := 0
			switch c {
			case "1":
				if n < 1 {
					return false
				}
				i = 1
			case "E":
				i = n
			}
			np := mPara{text: utf16.Encode([]rune(letterOf(v))), attrs: map[string]string{}}
			m.tree = append(append(append([]mPara{}, m.tree[:i]...), np), m.tree[i:]...)
			r.GetTree("tr").EditByPath([]int{i}, []int{i}, &yjson.TreeNode{Type: "p", Children: []yjson.TreeNode{{Type: "text", Value: letterOf(v)}}}, 0)
			return true
		}})
	}
	return out
}

// ---------------------------------------------------------------- compare

type c07family struct {
	name  string
	tm    []tmpl
	setup func(m *model, r *yjson.Object)
	cmp   func(m *model, d *document.Document) string // "" = equal
}

func c07Families() []c07family {
	return []c07family{
		{"arr", arrTmpls(), func(m *model, r *yjson.Object) {
			r.SetNewArray("a").AddInteger(1, 2, 3)
			m.arr = []string{"1", "2", "3"}
			m.arrMoved = []bool{false, false, false}
		}, func(m *model, d *document.Document) string {
			a := d.Root().GetArray("a")
			if got := a.Marshal(); got != m.marshalArr() {
				return fmt.Sprintf("Marshal: real %s model %s", got, m.marshalArr())
			}
			if a.Len() != len(m.arr) {
				return fmt.Sprintf("Len: real %d model %d", a.Len(), len(m.arr))
			}
			for i := range m.arr {
				if e := a.Get(i); e == nil || e.Marshal() != m.arr[i] {
					return fmt.Sprintf("Get(%d): real %v model %s", i, e, m.arr[i])
				}
			}
			if a.Get(len(m.arr)) != nil {
				return "Get(len) is not nil"
			}
			if got := d.Marshal(); got != `{"a":`+m.marshalArr()+`}` {
				return fmt.Sprintf("Document.Marshal: %s", got)
			}
			return ""
		}},
		{"txt", txtTmpls(), func(m *model, r *yjson.Object) {
			r.SetNewText("t").Edit(0, 0, "abcd")
			for _, u := range utf16.Encode([]rune("abcd")) {
				m.txt = append(m.txt, mChar{u: u, attrs: map[string]string{}})
			}
		}, func(m *model, d *document.Document) string {
			t := d.Root().GetText("t")
			var us []uint16
			for _, c := range m.txt {
				us = append(us, c.u)
			}
			if got, want := t.String(), string(utf16.Decode(us)); got != want {
				return fmt.Sprintf("String: real %q model %q", got, want)
			}
			runs, err := realTextRuns(t.Marshal())
			if err != nil {
				return err.Error()
			}
			if runs != m.textRuns() {
				return fmt.Sprintf("styled runs: real %s model %s", runs, m.textRuns())
			}
			if !t.CheckWeight() {
				return "CheckWeight failed"
			}
			return ""
		}},
		{"obj", objTmpls(), func(m *model, r *yjson.Object) {
			r.SetNewObject("o").SetInteger("k1", 0)
			m.obj["k1"] = "0"
		}, func(m *model, d *document.Document) string {
			o := d.Root().GetObject("o")
			if got := o.Marshal(); got != m.marshalObj() {
				return fmt.Sprintf("Marshal: real %s model %s", got, m.marshalObj())
			}
			for _, k := range []string{"k1", "k2"} {
				_, want := m.obj[k]
				if o.Has(k) != want {
					return fmt.Sprintf("Has(%s): real %v model %v", k, o.Has(k), want)
				}
				if want && o.Get(k).Marshal() != m.obj[k] {
					return fmt.Sprintf("Get(%s): real %s model %s", k, o.Get(k).Marshal(), m.obj[k])
				}
			}
			return ""
		}},
		{"cnt", cntTmpls(), func(m *model, r *yjson.Object) {
			r.SetNewCounter("c", 0)
			r.SetNewCounter("cl", int64(0))
		}, func(m *model, d *document.Document) string {
			want := fmt.Sprintf(`{"c":%d,"cl":%d}`, m.cInt, m.cLng)
			if got := d.Marshal(); got != want {
				return fmt.Sprintf("Marshal: real %s model %s", got, want)
			}
			return ""
		}},
		{"tree", treeTmpls(), func(m *model, r *yjson.Object) {
			r.SetNewTree("tr", yjson.TreeNode{Type: "doc", Children: []yjson.TreeNode{
				{Type: "p", Children: []yjson.TreeNode{{Type: "text", Value: "ab"}}},
				{Type: "p", Children: []yjson.TreeNode{{Type: "text", Value: "cd"}}},
			}})
			m.tree = []mPara{{text: utf16.Encode([]rune("ab")), attrs: map[string]string{}}, {text: utf16.Encode([]rune("cd")), attrs: map[string]string{}}}
		}, func(m *model, d *document.Document) string {
			t := d.Root().GetTree("tr")
			if got := t.ToXML(); got != m.treeXML() {
				return fmt.Sprintf("ToXML: real %s model %s", got, m.treeXML())
			}
			if t.Len() != m.treeLen() {
				return fmt.Sprintf("Len: real %d model %d", t.Len(), m.treeLen())
			}
			// index <-> path round trip for every index
			for idx := 0; idx <= m.treeLen(); idx++ {
				if _, err := t.FindPos(idx); err != nil {
					return fmt.Sprintf("FindPos(%d): %v", idx, err)
				}
				tp, err := t.IndexTree.FindTreePos(idx)
				if err != nil {
					return fmt.Sprintf("FindTreePos(%d): %v", idx, err)
				}
				path, err := t.IndexTree.TreePosToPath(tp)
				if err != nil {
					return fmt.Sprintf("TreePosToPath(%d): %v", idx, err)
				}
				back, err := t.IndexTree.PathToIndex(path)
				if err != nil || back != idx {
					return fmt.Sprintf("index %d -> path %v -> index %d (%v)", idx, path, back, err)
				}
				if want := modelPath(m, idx); fmt.Sprint(want) != fmt.Sprint(path) {
					return fmt.Sprintf("index %d: real path %v model path %v", idx, path, want)
				}
			}
			return ""
		}},
		tree2Family(),
	}
}

// modelPath converts an index of the flat doc>p>text model to a path.
func modelPath(m *model, idx int) []int {
	cur := 0
	for i, p := range m.tree {
		if idx == cur {
			return []int{i}
		}
		cur++ // open tag
		if idx <= cur+len(p.text) {
			return []int{i, idx - cur}
		}
		cur += len(p.text) + 1
	}
	return []int{len(m.tree)}
}

type c07case struct {
	Family  string   `json:"family"`
	Program []string `json:"program"`
	Start   string   `json:"start,omitempty"`
}

// runProgram applies the program (template names) to a fresh document and
// model; returns the first disagreement.
func runProgram(f *c07family, prog []int, d *document.Document, m *model, v0 int) (string, bool) {
	applied := false
	for step, ti := range prog {
		t := f.tm[ti]
		ok := false
		var panicMsg string
		err := func() (err error) {
			defer func() {
				if r := recover(); r != nil {
					panicMsg = fmt.Sprint(r)
				}
			}()
			return d.Update(func(r *yjson.Object, p *document.Presence) error {
				ok = t.do(m, r, v0+step)
				return nil
			})
		}()
		if panicMsg != "" {
			return fmt.Sprintf("step %d (%s): panic: %s", step, t.name, panicMsg), true
		}
		if err != nil {
			return fmt.Sprintf("step %d (%s): error: %v", step, t.name, err), true
		}
		if !ok {
			return "", false // not applicable: program pruned
		}
		applied = true
		if diff := f.cmp(m, d); diff != "" {
			return fmt.Sprintf("step %d (%s): %s", step, t.name, diff), true
		}
		if a, b := d.Root().Marshal(), d.Marshal(); a != b {
			return fmt.Sprintf("step %d (%s): Root() %s != Marshal() %s", step, t.name, a, b), true
		}
	}
	if applied {
		// the same reads on a working copy rebuilt from the authoritative root
		// (a rejected update discards the copy; the next read deep-copies the
		// root): what deleted content left behind must not show up there either
		_ = d.Update(func(r *yjson.Object, p *document.Presence) error { return errC07Reject })
		if diff := f.cmp(m, d); diff != "" {
			return fmt.Sprintf("step %d (%s), after the working copy was rebuilt: %s", len(prog)-1, f.tm[prog[len(prog)-1]].name, diff), true
		}
		if a, b := d.Root().Marshal(), d.Marshal(); a != b {
			return fmt.Sprintf("step %d (%s), after the working copy was rebuilt: Root() %s != Marshal() %s", len(prog)-1, f.tm[prog[len(prog)-1]].name, a, b), true
		}
	}
	return "", applied
}

var errC07Reject = fmt.Errorf("c07: rejected on purpose")

func c07Run(env *Env) *Result {
	res := NewResult()
	depth := 4
	if env.Tier == "thorough" {
		depth = 5
	}
	fams := c07Families()
	job := 0
	for fi := range fams {
		f := &fams[fi]
		n := len(f.tm)
		d := depth
		if n > 24 {
			d = depth - 1
		}
		// enumerate all programs of length 1..d, sharded by first two templates
		var prog []int
		var rec func()
		incomplete := false
		rec = func() {
			if env.Expired() {
				incomplete = true
				return
			}
			if len(prog) > 0 {
				mine := true
				if len(prog) >= 2 {
					mine = (prog[0]*n+prog[1])%env.NShards == env.Shard
				} else {
					mine = env.Shard == 0
				}
				if mine {
					names := make([]string, len(prog))
					for i, ti := range prog {
						names[i] = f.tm[ti].name
					}
					raw, _ := json.Marshal(c07case{Family: f.name, Program: names})
					if job%64 == 0 {
						env.Current(&Found{Property: "C07", Case: raw})
					}
					job++
					doc := document.New(key.Key("c07-doc"))
					m := newModel()
					_ = doc.Update(func(r *yjson.Object, p *document.Presence) error { f.setup(m, r); return nil })
					diff, counted := runProgram(f, prog, doc, m, 10)
					if diff != "" {
						// minimise at once (microseconds): drop calls while the
						// program still mismatches at the same kind of last call
						minp := minimiseProgram(f, prog)
						mn := make([]string, len(minp))
						for i, ti := range minp {
							mn[i] = f.tm[ti].name
						}
						raw, _ := json.Marshal(c07case{Family: f.name, Program: mn})
						core := "model-mismatch|" + f.name + "|" + strings.Join(mn, ",")
						if cls := classifyMismatch(f, m, names, diff); cls != "" {
							core = "model-mismatch|" + f.name + "|" + cls
						}
						res.AddFound(Found{Property: "C07", Kind: "model-mismatch", Sig: "model-mismatch:" + f.name + ":" + mn[len(mn)-1],
							Detail: fmt.Sprintf("program %v (minimised from %v): %s", mn, names, diff), Case: raw, Core: core})
						return
					}
					if !counted {
						return // last call not applicable
					}
					res.Evaluations++
					if len(prog) >= 2 {
						res.Nontrivial++
					}
					if len(prog) == d {
						res.Outcome(f.name + "|" + doc.Marshal())
					}
					if len(res.Samples) < 3 && len(prog) == d && job%97 == 0 {
						res.Sample(map[string]any{"family": f.name, "program": names, "final": doc.Marshal()})
					}
				}
			}
			if len(prog) == d {
				return
			}
			for ti := 0; ti < n; ti++ {
				prog = append(prog, ti)
				rec()
				prog = prog[:len(prog)-1]
			}
		}
		rec()
		if incomplete {
			res.Incomplete = append(res.Incomplete, "c07/"+f.name)
		} else if env.Shard == 0 {
			res.Completed = append(res.Completed, fmt.Sprintf("c07/%s/len<=%d", f.name, d))
		}
	}
	// non-initial start states harvested from multi-client histories
	c07Harvested(env, res)
	return res
}

// classifyMismatch names a mismatch by the call and the state condition the
// harness tracked for it (used only to identify known findings).
func classifyMismatch(f *c07family, m *model, names []string, diff string) string {
	var step int
	fmt.Sscanf(diff, "step %d", &step)
	if f.name == "arr" && step < len(names) && strings.HasPrefix(names[step], "set") && m.lastSetOnMoved {
		return "set-by-index-on-previously-moved-element"
	}
	return ""
}

// minimiseProgram removes calls one at a time while a fresh run still
// mismatches and the mismatching call is the same template.
func minimiseProgram(f *c07family, prog []int) []int {
	last := func(p []int) (int, bool) {
		doc := document.New(key.Key("c07-doc"))
		m := newModel()
		_ = doc.Update(func(r *yjson.Object, pr *document.Presence) error { f.setup(m, r); return nil })
		diff, _ := runProgram(f, p, doc, m, 10)
		if diff == "" {
			return 0, false
		}
		var step int
		fmt.Sscanf(diff, "step %d", &step)
		return p[step], true
	}
	want, ok := last(prog)
	if !ok {
		return prog
	}
	cur := append([]int(nil), prog...)
	changed := true
	for changed {
		changed = false
		for i := 0; i < len(cur); i++ {
			cand := append(append([]int(nil), cur[:i]...), cur[i+1:]...)
			if len(cand) == 0 {
				continue
			}
			if got, ok := last(cand); ok && got == want {
				cur = cand
				changed = true
				i--
			}
		}
	}
	// cut everything after the mismatching step
	doc := document.New(key.Key("c07-doc"))
	m := newModel()
	_ = doc.Update(func(r *yjson.Object, pr *document.Presence) error { f.setup(m, r); return nil })
	if diff, _ := runProgram(f, cur, doc, m, 10); diff != "" {
		var step int
		fmt.Sscanf(diff, "step %d", &step)
		cur = cur[:step+1]
	}
	return cur
}

// minimalTail keeps the program as the identity of a mismatch (programs are
// enumerated shortest-first, so the first mismatch per last-call is minimal).
func minimalTail(names []string) []string { return names }

// harvested start states: a replica that went through remote changes, moves,
// deletes and GC (tombstones, dead slots, split nodes) or was fed by snapshot.
type harvest struct {
	name string
	fam  string
	sc   *hist.Scenario
	h    []hist.Event
	rep  int
	load func(m *model, d *document.Document) error
}

func ev(c int, k, op string) hist.Event { return hist.Event{K: k, C: c, Op: op} }

func c07Harvests() []harvest {
	never := hist.Config{Threshold: hist.Big, Interval: hist.Big}
	snap := hist.Config{Threshold: 1, Interval: 1}
	loadArr := func(m *model, d *document.Document) error {
		var xs []json.RawMessage
		if err := json.Unmarshal([]byte(d.Root().GetArray("a").Marshal()), &xs); err != nil {
			return err
		}
		m.arr = nil
		m.arrMoved = nil
		for _, x := range xs {
			m.arr = append(m.arr, string(x))
		}
		if ca, ok := d.RootObject().Get("a").(*crdt.Array); ok {
			for _, n := range ca.RGATreeList().Nodes() {
				if !n.IsRemoved() {
					m.arrMoved = append(m.arrMoved, n.PositionMovedAt() != nil)
				}
			}
		}
		if len(m.arrMoved) != len(m.arr) {
			return fmt.Errorf("moved flags %d != elements %d", len(m.arrMoved), len(m.arr))
		}
		return nil
	}
	loadTxt := func(m *model, d *document.Document) error {
		var chunks []struct {
			Attrs map[string]string `json:"attrs"`
			Val   string            `json:"val"`
		}
		if err := json.Unmarshal([]byte(d.Root().GetText("t").Marshal()), &chunks); err != nil {
			return err
		}
		m.txt = nil
		for _, c := range chunks {
			for _, u := range utf16.Encode([]rune(c.Val)) {
				a := map[string]string{}
				for k, v := range c.Attrs {
					a[k] = v
				}
				m.txt = append(m.txt, mChar{u: u, attrs: a})
			}
		}
		return nil
	}
	arrH := [][]hist.Event{
		{ev(0, "e", "a.delL"), ev(1, "e", "a.mv0L"), ev(0, "s", ""), ev(1, "s", ""), ev(0, "s", "")},
		{ev(0, "e", "a.mvFrontL"), ev(0, "s", ""), ev(1, "s", ""), ev(1, "e", "a.mvLast0"), ev(1, "s", ""), ev(0, "s", ""), ev(1, "s", ""), ev(0, "s", "")},
		{ev(0, "e", "a.ins0"), ev(1, "e", "a.del0"), ev(1, "s", ""), ev(0, "s", "")},
		{ev(0, "e", "a.mv0L"), ev(0, "e", "a.push"), ev(0, "s", "")},
	}
	txtH := [][]hist.Event{
		{ev(0, "e", "t.delM"), ev(1, "e", "t.insM"), ev(0, "s", ""), ev(1, "s", ""), ev(0, "s", "")},
		{ev(0, "e", "t.styF"), ev(1, "e", "t.repM"), ev(1, "s", ""), ev(0, "s", ""), ev(1, "s", ""), ev(0, "s", ""), ev(1, "s", "")},
		{ev(0, "e", "t.ins2M"), ev(0, "e", "t.delF"), ev(0, "s", "")},
	}
	var out []harvest
	for i, h := range arrH {
		out = append(out, harvest{fmt.Sprintf("arr-h%d", i), "arr", &hist.Scenario{Name: "c07h", N: 2, Init: []string{"init.a"}, Cfg: never}, h, 0, loadArr})
		out = append(out, harvest{fmt.Sprintf("arr-h%d-peer", i), "arr", &hist.Scenario{Name: "c07h", N: 2, Init: []string{"init.a"}, Cfg: never}, h, 1, loadArr})
	}
	for i, h := range txtH {
		out = append(out, harvest{fmt.Sprintf("txt-h%d", i), "txt", &hist.Scenario{Name: "c07h", N: 2, Init: []string{"init.t"}, Cfg: never}, h, 0, loadTxt})
		out = append(out, harvest{fmt.Sprintf("txt-h%d-peer", i), "txt", &hist.Scenario{Name: "c07h", N: 2, Init: []string{"init.t"}, Cfg: never}, h, 1, loadTxt})
	}
	// snapshot-fed replica
	out = append(out, harvest{"arr-snapfed", "arr", &hist.Scenario{Name: "c07h", N: 1, Late: 1, Init: []string{"init.a"}, Cfg: snap},
		[]hist.Event{ev(0, "e", "a.mv0L"), ev(0, "e", "a.delM"), ev(0, "s", ""), ev(1, "at", "")}, 1, loadArr})
	out = append(out, harvest{"txt-snapfed", "txt", &hist.Scenario{Name: "c07h", N: 1, Late: 1, Init: []string{"init.t"}, Cfg: snap},
		[]hist.Event{ev(0, "e", "t.delM"), ev(0, "e", "t.styF"), ev(0, "s", ""), ev(1, "at", "")}, 1, loadTxt})
	return out
}

func c07Harvested(env *Env, res *Result) {
	fams := c07Families()
	byName := map[string]*c07family{}
	for i := range fams {
		byName[fams[i].name] = &fams[i]
	}
	hs := c07Harvests()
	depth := 2
	if env.Tier == "thorough" {
		depth = 3
	}
	job := 0
	for _, hv := range hs {
		f := byName[hv.fam]
		n := len(f.tm)
		var progs [][]int
		var cur []int
		var gen func()
		gen = func() {
			if len(cur) > 0 {
				progs = append(progs, append([]int(nil), cur...))
			}
			if len(cur) == depth {
				return
			}
			for ti := 0; ti < n; ti++ {
				cur = append(cur, ti)
				gen()
				cur = cur[:len(cur)-1]
			}
		}
		gen()
		incomplete := false
		for _, prog := range progs {
			job++
			if job%env.NShards != env.Shard {
				continue
			}
			if env.Expired() {
				incomplete = true
				break
			}
			r, err := Runner()
			if err != nil {
				res.HarnessErr = append(res.HarnessErr, err.Error())
				return
			}
			names := make([]string, len(prog))
			for i, ti := range prog {
				names[i] = f.tm[ti].name
			}
			raw, _ := json.Marshal(c07case{Family: f.name, Program: names, Start: hv.name})
			env.Current(&Found{Property: "C07", Case: raw})
			x := r.Run(hv.sc, hv.sc.Cfg, hv.h)
			if x.Aborted || len(x.Viol) > 0 {
				x.Close()
				continue // start state not reachable cleanly (other properties' findings)
			}
			doc := x.Reps[hv.rep].Doc
			m := newModel()
			if err := hv.load(m, doc); err != nil {
				x.Close()
				continue
			}
			diff, counted := runProgram(f, prog, doc, m, 40)
			x.Close()
			if diff != "" {
				core := "model-mismatch|" + f.name + "|start=" + hv.name + "|" + strings.Join(names, ",")
				if cls := classifyMismatch(f, m, names, diff); cls != "" {
					core = "model-mismatch|" + f.name + "|" + cls
				}
				res.AddFound(Found{Property: "C07", Kind: "model-mismatch", Sig: "model-mismatch:" + f.name + ":" + names[len(names)-1],
					Detail: fmt.Sprintf("start %s (history %s, replica %d), program %v: %s", hv.name, hist.HistString(hv.h), hv.rep, names, diff), Case: raw, Core: core})
				continue
			}
			if counted {
				res.Evaluations++
				res.Nontrivial++
				res.Count("programs_from_harvested_states", 1)
			}
		}
		if incomplete {
			res.Incomplete = append(res.Incomplete, "c07/harvested/"+hv.name)
		} else if env.Shard == 0 {
			res.Completed = append(res.Completed, "c07/harvested/"+hv.name)
		}
	}
}

func c07Reproduce(f *Found) (bool, error) {
	var c c07case
	if err := json.Unmarshal(f.Case, &c); err != nil {
		return false, err
	}
	fams := c07Families()
	var fam *c07family
	for i := range fams {
		if fams[i].name == c.Family {
			fam = &fams[i]
		}
	}
	if fam == nil {
		return false, fmt.Errorf("unknown family %s", c.Family)
	}
	var prog []int
	for _, nme := range c.Program {
		found := false
		for ti, t := range fam.tm {
			if t.name == nme {
				prog = append(prog, ti)
				found = true
			}
		}
		if !found {
			return false, fmt.Errorf("unknown template %s", nme)
		}
	}
	if c.Start == "" {
		doc := document.New(key.Key("c07-doc"))
		m := newModel()
		_ = doc.Update(func(r *yjson.Object, p *document.Presence) error { fam.setup(m, r); return nil })
		diff, _ := runProgram(fam, prog, doc, m, 10)
		return diff != "", nil
	}
	for _, hv := range c07Harvests() {
		if hv.name != c.Start {
			continue
		}
		r, err := Runner()
		if err != nil {
			return false, err
		}
		x := r.Run(hv.sc, hv.sc.Cfg, hv.h)
		defer x.Close()
		if x.Aborted {
			return false, fmt.Errorf("start state aborted")
		}
		doc := x.Reps[hv.rep].Doc
		m := newModel()
		if err := hv.load(m, doc); err != nil {
			return false, err
		}
		diff, _ := runProgram(fam, prog, doc, m, 40)
		return diff != "", nil
	}
	return false, fmt.Errorf("unknown start %s", c.Start)
}

func init() {
	register(&Check{
		ID:    "C07",
		Level: "exploration",
		Rule: "ALL programs of length <=4 (thorough 5) over each data type's call templates (array: push/insertAfter/delete/set/move*/moveFront/moveLast by index class first/mid/last; " +
			"text: insert/delete/replace/style over position classes incl. a surrogate pair; object: set/delete/nested; counters: int32/int64 wrap-around and float operands; " +
			"tree: text insert/delete, element insert/delete, style/removeStyle by path) executed on one real Document next to a plain Go reference model (slice/string/map/ints/XML); " +
			"after EVERY call: Marshal, Len, Get(i) for all i, String, styled runs, CheckWeight, ToXML, index->path->index for every index, and Root()==Marshal(); " +
			"plus all programs of length <=2 (thorough 3) started from non-initial states harvested from multi-client histories through the real server " +
			"(tombstones, dead array slots, split text nodes, post-GC, snapshot-fed); non-trivial = programs of length >= 2; distinct by construction",
		Assume:      []string{"reference models cover the listed calls only", "index classes first/quarter/mid/last instead of every index"},
		QuickBudget: 120 * time.Second,
		Run:         c07Run,
		Reproduce:   c07Reproduce,
	})
}
