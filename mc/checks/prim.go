package checks

import (
	"encoding/json"
	"fmt"
	"os"
	"os/exec"
	"path/filepath"
	"strings"
	"time"
)

// The primitive-level exploration (pkg/locker, pkg/cmap at the granularity of
// their own mutex / atomic operations) lives in its own binary, because it is
// built with an overlay that swaps "sync" and "sync/atomic" inside those
// packages for scheduler-aware shims: see mc/prim, mc/vsync, mc/vatomic,
// mc/cmd/genoverlay and bin/build_prim.sh. This file launches it and converts
// the result.

func primBinary() string { return VerifDir() + "/.build/vprim" }

// primRun runs this worker's share of the primitive scenarios.
func primRun(env *Env, res *Result, prop string) {
	if _, err := os.Stat(primBinary()); err != nil {
		res.HarnessErr = append(res.HarnessErr, "primitive exploration: "+primBinary()+" not built")
		return
	}
	out := filepath.Join(os.TempDir(), fmt.Sprintf("vprim-%d-%d.json", os.Getpid(), env.Shard))
	defer os.Remove(out)
	budget := time.Until(env.Deadline)
	if budget < 5*time.Second {
		res.Incomplete = append(res.Incomplete, "prim (no time left)")
		return
	}
	cmd := exec.Command(primBinary(), "explore", env.Tier, fmt.Sprint(env.Shard), fmt.Sprint(env.NShards), fmt.Sprintf("%.0f", budget.Seconds()), out)
	stop := make(chan struct{})
	go func() {
		for {
			select {
			case <-stop:
				return
			case <-time.After(2 * time.Second):
				Progress.Add(1)
			}
		}
	}()
	b, err := cmd.CombinedOutput()
	close(stop)
	if err != nil {
		res.HarnessErr = append(res.HarnessErr, fmt.Sprintf("vprim: %v\n%s", err, truncateStr(string(b), 3000)))
		return
	}
	raw, err := os.ReadFile(out)
	if err != nil {
		res.HarnessErr = append(res.HarnessErr, "vprim: "+err.Error())
		return
	}
	var r c17result
	if err := json.Unmarshal(raw, &r); err != nil {
		res.HarnessErr = append(res.HarnessErr, "vprim: "+err.Error())
		return
	}
	res.Evaluations += r.Evaluations
	res.Nontrivial += r.Nontrivial
	for k, v := range r.Outcomes {
		res.Outcomes["prim|"+k] += v
	}
	for _, s := range r.Samples {
		if len(res.Samples) < 5 {
			res.Samples = append(res.Samples, s)
		}
	}
	res.Incomplete = append(res.Incomplete, r.Incomplete...)
	res.Completed = append(res.Completed, r.Completed...)
	res.Count("schedules_of_primitive_harnesses", r.Evaluations)
	for _, f := range r.Found {
		res.AddFound(Found{Property: prop, Kind: f.Kind, Sig: f.Kind + ":prim", Detail: f.Detail, Case: json.RawMessage(f.Case), Core: f.Core})
	}
}

// primReproduce replays one primitive case in the overlay binary.
func primReproduce(f *Found) (bool, error) {
	cmd := exec.Command(primBinary(), "replay", string(f.Case))
	b, err := cmd.CombinedOutput()
	if STrace != nil {
		fmt.Fprintln(STrace, string(b))
	}
	if err == nil {
		return false, nil
	}
	if ee, ok := err.(*exec.ExitError); ok && ee.ExitCode() == 1 {
		return true, nil
	}
	return false, fmt.Errorf("vprim replay: %v\n%s", err, truncateStr(string(b), 1500))
}

// primRacePass runs the same thread bodies free (no scheduler) in the -race
// build of the overlay binary.
func primRacePass(res *Result, tier string) {
	bin := VerifDir() + "/.build/vprim-race"
	if _, err := os.Stat(bin); err != nil {
		res.Notes = append(res.Notes, "primitive race pass skipped: "+bin+" not built")
		return
	}
	rounds := "150"
	if tier == "thorough" {
		rounds = "1500"
	}
	cmd := exec.Command(bin, "free", rounds)
	cmd.Env = append(os.Environ(), "GORACE=halt_on_error=0 exitcode=0", "GOMAXPROCS=16")
	out, err := cmd.CombinedOutput()
	text := string(out)
	if err != nil && !strings.Contains(text, "primfree iterations=") && !strings.Contains(text, "WARNING: DATA RACE") && !strings.Contains(text, "fatal error: concurrent map") {
		res.HarnessErr = append(res.HarnessErr, fmt.Sprintf("primitive race pass: %v\n%s", err, truncateStr(text, 2000)))
		return
	}
	var it int
	if i := strings.LastIndex(text, "primfree iterations="); i >= 0 {
		fmt.Sscanf(text[i:], "primfree iterations=%d", &it)
	}
	res.Count("prim_race_pass_iterations", it)
	if i := strings.Index(text, "fatal error: concurrent map"); i >= 0 {
		raw, _ := json.Marshal(map[string]string{"race": "concurrent map access in a primitive"})
		res.AddFound(Found{Property: "C16", Kind: "data-race", Sig: "data-race:prim-map", Detail: truncateStr(text[i:], 3500), Case: raw, Core: "data-race|concurrent-map|primitive"})
	}
	for _, l := range strings.Split(text, "\n") {
		if strings.HasPrefix(l, "PRIMFREE-VIOLATION: ") {
			msg := strings.TrimPrefix(l, "PRIMFREE-VIOLATION: ")
			raw, _ := json.Marshal(map[string]string{"free_running": msg})
			core := msg
			if len(core) > 100 {
				core = core[:100]
			}
			res.AddFound(Found{Property: "C16", Kind: "primitive", Sig: "primitive:free-running", Detail: msg, Case: raw, Core: "primitive|free-running|" + stripDigits(core)})
		}
	}
	reports := strings.Split(text, "WARNING: DATA RACE")
	res.Count("prim_race_reports", len(reports)-1)
	seen := map[string]bool{}
	for _, rep := range reports[1:] {
		if j := strings.Index(rep, "=================="); j > 0 {
			rep = rep[:j]
		}
		site := raceSite(rep)
		if site == "unknown" {
			res.Count("race_reports_harness_only", 1)
			continue
		}
		if seen[site] {
			continue
		}
		seen[site] = true
		raw, _ := json.Marshal(map[string]string{"race": site})
		res.AddFound(Found{Property: "C16", Kind: "data-race", Sig: "data-race:" + site, Detail: "WARNING: DATA RACE" + truncateStr(rep, 3500), Case: raw, Core: "data-race|" + site})
	}
}

func stripDigits(s string) string {
	var sb strings.Builder
	for _, r := range s {
		if r < '0' || r > '9' {
			sb.WriteRune(r)
		}
	}
	return sb.String()
}
