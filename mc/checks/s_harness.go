package checks

import (
	"context"
	"fmt"
	"math"
	"sort"
	"strings"
	"time"

	"connectrpc.com/connect"

	"github.com/yorkie-team/yorkie/api/converter"
	"github.com/yorkie-team/yorkie/api/types"
	api "github.com/yorkie-team/yorkie/api/yorkie/v1"
	"github.com/yorkie-team/yorkie/api/yorkie/v1/v1connect"
	"github.com/yorkie-team/yorkie/pkg/document"
	"github.com/yorkie-team/yorkie/pkg/document/change"
	yjson "github.com/yorkie-team/yorkie/pkg/document/json"
	yktime "github.com/yorkie-team/yorkie/pkg/document/time"
	"github.com/yorkie-team/yorkie/pkg/key"
	"github.com/yorkie-team/yorkie/server/backend/background"
	"github.com/yorkie-team/yorkie/server/backend/database"
	ysync "github.com/yorkie-team/yorkie/server/backend/sync"
	"github.com/yorkie-team/yorkie/server/documents"

	"verifmc/hist"
	"verifmc/sched"
	"verifmc/world"
)

// Engine S glue: the scheduler owns named-lock operations (trace hook),
// storage calls (DB decorator) and background tasks (spawn hook).

var sHooksInstalled bool

func installSHooks(w *world.World) {
	ysync.VerifTraceFunc = func(op, k string) {
		if x := sched.Current(); x != nil {
			x.LockOp(op, k)
		}
	}
	background.VerifSpawnFunc = func(run func()) {
		if x := sched.Current(); x != nil {
			x.Go("background", run)
			return
		}
		go run()
	}
	w.DBW.Before = func(m string) error {
		if x := sched.Current(); x != nil {
			x.Yield("db", m)
		}
		return nil
	}
	sHooksInstalled = true
}

// sClient is a raw protocol client: real Document, raw stub.
type sClient struct {
	role  int
	id    string
	doc   *document.Document
	docID string
	stop  chan struct{}
	// delivered: (actor, clientSeq) of every change returned to this client, in order
	delivered []string
	cps       []int64 // response checkpoints (serverSeq)
	gotSnap   bool
	errs      []string
}

type sWorld struct {
	w       *world.World
	proj    *types.Project
	stub    v1connect.YorkieServiceClient
	ctx     context.Context
	docKey  key.Key
	clients []*sClient
	extra   []*sClient // shadows of clients on a second document
	val     int
	// scenario scratch: the value pushed inside the window and the error of that push
	pushed  int
	pushErr string
	// logical stamps of the attach-vs-compaction scenario
	clock, attachDone, compactStart int
	compacted                       bool
}

var sRunnerWorld *world.World
var sExecs int

func sGetWorld() (*world.World, error) {
	if sRunnerWorld != nil && sExecs < 300 {
		sExecs++
		sRunnerWorld.Bind()
		installSHooks(sRunnerWorld)
		return sRunnerWorld, nil
	}
	if sRunnerWorld != nil {
		sRunnerWorld.Close()
	}
	w, err := world.New(world.Options{UseDefaultProject: true})
	if err != nil {
		return nil, err
	}
	installSHooks(w)
	sRunnerWorld = w
	sExecs = 0
	sProjects = map[[2]int64]*types.Project{}
	return w, nil
}

// sPoison discards the world (after a deadlock its locks are held forever).
func sPoison() { sRunnerWorld = nil }

var sProjects = map[[2]int64]*types.Project{}

func newSWorld(n int, threshold, interval int64) (*sWorld, error) {
	w, err := sGetWorld()
	if err != nil {
		return nil, err
	}
	k := [2]int64{threshold, interval}
	p := sProjects[k]
	if p == nil {
		p, err = w.NewProject(fmt.Sprintf("s-%d-%d-%d", threshold, interval, w.NextID()), threshold, interval)
		if err != nil {
			return nil, err
		}
		sProjects[k] = p
	}
	sw := &sWorld{w: w, proj: p, stub: w.Raw(p), ctx: context.Background(), docKey: key.Key(fmt.Sprintf("sdoc-%d", w.NextID()))}
	for i := 0; i < n; i++ {
		c, err := sw.activate()
		if err != nil {
			return nil, err
		}
		sw.clients = append(sw.clients, c)
	}
	sort.SliceStable(sw.clients, func(i, j int) bool { return sw.clients[i].id < sw.clients[j].id })
	for i, c := range sw.clients {
		c.role = i
	}
	return sw, nil
}

func (sw *sWorld) activate() (*sClient, error) {
	res, err := sw.stub.ActivateClient(sw.ctx, connect.NewRequest(&api.ActivateClientRequest{ClientKey: fmt.Sprintf("sc-%d", sw.w.NextID())}))
	if err != nil {
		return nil, err
	}
	c := &sClient{id: res.Msg.ClientId}
	sw.newDoc(c)
	return c, nil
}

func (sw *sWorld) newDoc(c *sClient) {
	d := document.New(sw.docKey)
	a, _ := yktime.ActorIDFromHex(c.id)
	d.SetActor(a)
	stop := make(chan struct{})
	go func() {
		for {
			select {
			case <-d.Events():
			case <-stop:
				return
			}
		}
	}()
	c.doc, c.stop = d, stop
}

func (sw *sWorld) close() {
	for _, c := range sw.clients {
		close(c.stop)
	}
	for _, c := range sw.extra {
		close(c.stop)
	}
}

// edit makes one local change on the client's document (a counter increase
// and an array push: the C01/C04 oracles can see duplicates and order).
func (sw *sWorld) edit(c *sClient) {
	sw.val++
	v := sw.val
	_ = c.doc.Update(func(r *yjson.Object, p *document.Presence) error {
		if r.Get("c") == nil {
			return nil
		}
		r.GetCounter("c").Increase(1)
		r.GetArray("a").AddInteger(v)
		return nil
	})
}

func (sw *sWorld) record(c *sClient, pb *api.ChangePack) error {
	pack, err := converter.FromChangePack(pb)
	if err != nil {
		return err
	}
	for _, ch := range pack.Changes {
		c.delivered = append(c.delivered, fmt.Sprintf("%s/%d", ch.ID().ActorID().String(), ch.ClientSeq()))
	}
	if len(pack.Snapshot) > 0 {
		c.gotSnap = true
		c.delivered = append(c.delivered, fmt.Sprintf("snapshot@%d", pack.Checkpoint.ServerSeq))
	}
	c.cps = append(c.cps, pack.Checkpoint.ServerSeq)
	return c.doc.ApplyChangePack(pack)
}

func (sw *sWorld) attach(c *sClient) error {
	pb, err := converter.ToChangePack(c.doc.CreateChangePack())
	if err != nil {
		return err
	}
	res, err := sw.stub.AttachDocument(sw.ctx, connect.NewRequest(&api.AttachDocumentRequest{ClientId: c.id, ChangePack: pb, DisablePresence: true}))
	if err != nil {
		return err
	}
	c.docID = res.Msg.DocumentId
	c.doc.SetStatus(document.StatusAttached)
	return sw.record(c, res.Msg.ChangePack)
}

func (sw *sWorld) pushpull(c *sClient) error {
	pb, err := converter.ToChangePack(c.doc.CreateChangePack())
	if err != nil {
		return err
	}
	return sw.pushpullPack(c, pb)
}

func (sw *sWorld) pushpullPack(c *sClient, pb *api.ChangePack) error {
	res, err := sw.stub.PushPullChanges(sw.ctx, connect.NewRequest(&api.PushPullChangesRequest{ClientId: c.id, DocumentId: c.docID, ChangePack: pb}))
	if err != nil {
		return err
	}
	return sw.record(c, res.Msg.ChangePack)
}

func (sw *sWorld) detach(c *sClient) error {
	pb, err := converter.ToChangePack(c.doc.CreateChangePack())
	if err != nil {
		return err
	}
	res, err := sw.stub.DetachDocument(sw.ctx, connect.NewRequest(&api.DetachDocumentRequest{ClientId: c.id, DocumentId: c.docID, ChangePack: pb}))
	if err != nil {
		return err
	}
	return sw.record(c, res.Msg.ChangePack)
}

func (sw *sWorld) remove(c *sClient) error {
	pack := c.doc.CreateChangePack()
	pack.IsRemoved = true
	pb, err := converter.ToChangePack(pack)
	if err != nil {
		return err
	}
	res, err := sw.stub.RemoveDocument(sw.ctx, connect.NewRequest(&api.RemoveDocumentRequest{ClientId: c.id, DocumentId: c.docID, ChangePack: pb}))
	if err != nil {
		return err
	}
	return sw.record(c, res.Msg.ChangePack)
}

func (sw *sWorld) deactivate(c *sClient) error {
	_, err := sw.stub.DeactivateClient(sw.ctx, connect.NewRequest(&api.DeactivateClientRequest{ClientId: c.id, Synchronous: true}))
	return err
}

func (sw *sWorld) compact(force bool) error {
	di, err := documents.FindDocInfoByKey(sw.ctx, sw.w.BE, sw.proj, sw.docKey)
	if err != nil {
		return err
	}
	_, err = documents.CompactDocument(sw.ctx, sw.w.BE, sw.proj, di, force)
	return err
}

// second gives client c a second document (another key) of its own: a shadow
// sClient with the same client id, attached and synced.
func (sw *sWorld) second(c *sClient) (*sClient, error) {
	b := &sClient{id: c.id, role: c.role}
	d := document.New(key.Key(string(sw.docKey) + "-b"))
	a, _ := yktime.ActorIDFromHex(c.id)
	d.SetActor(a)
	stop := make(chan struct{})
	go func() {
		for {
			select {
			case <-d.Events():
			case <-stop:
				return
			}
		}
	}()
	b.doc, b.stop = d, stop
	sw.extra = append(sw.extra, b)
	_ = d.Update(func(r *yjson.Object, p *document.Presence) error {
		r.SetNewCounter("c", 0)
		return nil
	})
	if err := sw.attach(b); err != nil {
		return nil, err
	}
	sw.w.WaitBackground()
	b.delivered, b.cps = nil, nil
	return b, nil
}

func (sw *sWorld) editOther(b *sClient) {
	_ = b.doc.Update(func(r *yjson.Object, p *document.Presence) error {
		r.GetCounter("c").Increase(1)
		return nil
	})
}

func (sw *sWorld) pushpullOther(b *sClient) error { return sw.pushpull(b) }

// storedCheckpoints: for every document of client c (the main one and the
// shadows made by second), the checkpoint the server has stored equals the
// last one it returned - a request on one document must not undo the
// bookkeeping of another.
func (sw *sWorld) storedCheckpoints(c *sClient) string {
	a, _ := yktime.ActorIDFromHex(c.id)
	ci, err := sw.w.BE.DB.FindClientInfoByRefKey(sw.ctx, types.ClientRefKey{ProjectID: sw.proj.ID, ClientID: types.IDFromActorID(a)})
	if err != nil {
		return "client info: " + err.Error()
	}
	for _, x := range append([]*sClient{c}, sw.extra...) {
		if x.id != c.id || len(x.cps) == 0 {
			continue
		}
		cd := ci.Documents[types.ID(x.docID)]
		if cd == nil {
			return fmt.Sprintf("client %d has no stored entry for document %s", c.role, x.doc.Key())
		}
		want := x.doc.Checkpoint()
		if cd.ServerSeq != want.ServerSeq || cd.ClientSeq != want.ClientSeq {
			return fmt.Sprintf("client %d, document %s: stored checkpoint (%d,%d) != acknowledged checkpoint (%d,%d)", c.role, x.doc.Key(), cd.ServerSeq, cd.ClientSeq, want.ServerSeq, want.ClientSeq)
		}
	}
	return ""
}

// goneFromDocument: the client no longer counts for the document - status not
// attached and no version-vector row.
func (sw *sWorld) goneFromDocument(c *sClient) string {
	a, _ := yktime.ActorIDFromHex(c.id)
	ci, err := sw.w.BE.DB.FindClientInfoByRefKey(sw.ctx, types.ClientRefKey{ProjectID: sw.proj.ID, ClientID: types.IDFromActorID(a)})
	if err != nil {
		return "client info: " + err.Error()
	}
	if cd := ci.Documents[types.ID(c.docID)]; cd != nil && cd.Status == database.DocumentAttached {
		return fmt.Sprintf("client %d is still attached after detach and deactivate both returned", c.role)
	}
	for _, raw := range sw.w.MemDB.DumpTableForVerif("versionvectors") {
		if v := raw.(*database.VersionVectorInfo); v.DocID == types.ID(c.docID) && v.ClientID == types.IDFromActorID(a) {
			return fmt.Sprintf("client %d left a version-vector row behind", c.role)
		}
	}
	return ""
}

// setup: client 0 creates the content, everybody attaches and syncs (unmanaged).
func (sw *sWorld) setup(attached int) error {
	for i := 0; i < attached; i++ {
		c := sw.clients[i]
		if i == 0 {
			_ = c.doc.Update(func(r *yjson.Object, p *document.Presence) error {
				r.SetNewCounter("c", 0)
				r.SetNewArray("a")
				return nil
			})
		}
		if err := sw.attach(c); err != nil {
			return err
		}
	}
	for i := 0; i < attached; i++ {
		if err := sw.pushpull(sw.clients[i]); err != nil {
			return err
		}
	}
	sw.w.WaitBackground()
	for _, c := range sw.clients {
		c.delivered, c.cps = nil, nil
	}
	return nil
}

// logOracle is C04's oracle on the stored log and the recorded deliveries.
func (sw *sWorld) logOracle(allowDupRetry bool) string {
	di, err := documents.FindDocInfoByKey(sw.ctx, sw.w.BE, sw.proj, sw.docKey)
	if err != nil {
		return "" // removed
	}
	infos, err := sw.w.BE.DB.FindChangeInfosBetweenServerSeqs(sw.ctx, di.RefKey(), 1, math.MaxInt64)
	if err != nil {
		return "log: " + err.Error()
	}
	lastSeq := map[string]uint32{}
	for i, ci := range infos {
		if ci.ServerSeq != int64(i+1) {
			return fmt.Sprintf("log gap/duplicate: row %d has serverSeq %d", i, ci.ServerSeq)
		}
		a := ci.ActorID.String()
		if ci.ClientSeq <= lastSeq[a] && lastSeq[a] != 0 {
			return fmt.Sprintf("actor c%d: clientSeq %d stored after %d (serverSeq %d)", sw.roleOf(a), ci.ClientSeq, lastSeq[a], ci.ServerSeq)
		}
		lastSeq[a] = ci.ClientSeq
	}
	if di.ServerSeq != int64(len(infos)) {
		return fmt.Sprintf("document head %d != %d stored changes", di.ServerSeq, len(infos))
	}
	for _, c := range sw.clients {
		// checkpoints monotone and never beyond the head
		prev := int64(-1)
		for _, cp := range c.cps {
			if cp < prev {
				return fmt.Sprintf("client %d: response checkpoints not monotone %v", c.role, c.cps)
			}
			if cp > di.ServerSeq {
				return fmt.Sprintf("client %d: response checkpoint %d beyond the log head %d", c.role, cp, di.ServerSeq)
			}
			prev = cp
		}
		if c.gotSnap {
			continue
		}
		// deliveries == log restricted to other actors, in order, up to the last checkpoint, no echo
		var want []string
		last := int64(0)
		if len(c.cps) > 0 {
			last = c.cps[len(c.cps)-1]
		}
		for _, ci := range infos {
			if ci.ServerSeq > last {
				break
			}
			if ci.ActorID.String() != c.id {
				want = append(want, fmt.Sprintf("%s/%d", ci.ActorID.String(), ci.ClientSeq))
			}
		}
		got := c.delivered
		for _, g := range got {
			if strings.HasPrefix(g, c.id+"/") {
				return fmt.Sprintf("client %d received an echo of its own change %s", c.role, sw.short(g))
			}
		}
		// a client that attached before the window has the earlier part already; compare the tail
		if len(got) > len(want) {
			return fmt.Sprintf("client %d received more changes than the log holds for it: %v vs %v", c.role, sw.shorts(got), sw.shorts(want))
		}
		tail := want[len(want)-len(got):]
		for i := range got {
			if got[i] != tail[i] {
				return fmt.Sprintf("client %d received %v, the log (others, in order) ends with %v", c.role, sw.shorts(got), sw.shorts(tail))
			}
		}
	}
	return ""
}

func (sw *sWorld) roleOf(id string) int {
	for _, c := range sw.clients {
		if c.id == id {
			return c.role
		}
	}
	return -1
}

func (sw *sWorld) short(s string) string {
	if i := strings.IndexByte(s, '/'); i > 0 {
		return fmt.Sprintf("c%d%s", sw.roleOf(s[:i]), s[i:])
	}
	return s
}

func (sw *sWorld) shorts(xs []string) []string {
	out := make([]string, len(xs))
	for i, x := range xs {
		out[i] = sw.short(x)
	}
	return out
}

// converge: after the concurrent window, everybody still attached syncs
// sequentially until quiescent; all replicas must agree.
func (sw *sWorld) converge(active []*sClient) string {
	sw.w.WaitBackground()
	for round := 0; round < 4; round++ {
		for _, c := range active {
			if err := sw.pushpull(c); err != nil {
				return fmt.Sprintf("client %d sync after the window: %v", c.role, err)
			}
		}
		sw.w.WaitBackground()
	}
	if len(active) == 0 {
		return ""
	}
	ref := active[0].doc.Marshal()
	for _, c := range active[1:] {
		if m := c.doc.Marshal(); m != ref {
			return fmt.Sprintf("replicas diverge after the window\nclient %d: %s\nclient %d: %s", active[0].role, ref, c.role, m)
		}
	}
	// counter == number of array items == number of edits stored (no duplicate, no loss)
	return ""
}

var _ = change.InitialCheckpoint
var _ = database.ErrClientNotFound
var _ = hist.Big
var _ = time.Second
