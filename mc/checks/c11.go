package checks

import (
	"context"
	"encoding/json"
	"fmt"
	"math"
	"sort"
	"strings"
	"time"

	"connectrpc.com/connect"

	"github.com/yorkie-team/yorkie/api/converter"
	"github.com/yorkie-team/yorkie/api/types"
	api "github.com/yorkie-team/yorkie/api/yorkie/v1"
	"github.com/yorkie-team/yorkie/api/yorkie/v1/v1connect"
	"github.com/yorkie-team/yorkie/pkg/document"
	yjson "github.com/yorkie-team/yorkie/pkg/document/json"
	yktime "github.com/yorkie-team/yorkie/pkg/document/time"
	"github.com/yorkie-team/yorkie/pkg/key"
	"github.com/yorkie-team/yorkie/server/backend/database"

	"verifmc/hist"
)

// C11: the RPC-level lifecycle state machine, driven with raw stubs so that
// invalid sequences reach the server. Reference model = the documented state
// machine as plain Go values.

type lcEvent struct {
	K string `json:"k"` // act deact att attr(eused instance) pp det rm
	C int    `json:"c"`
	D int    `json:"d"`
}

func (e lcEvent) String() string {
	if e.K == "act" || e.K == "deact" {
		return fmt.Sprintf("%s(c%d)", e.K, e.C)
	}
	return fmt.Sprintf("%s(c%d,d%d)", e.K, e.C, e.D)
}

const lcClients, lcDocs = 2, 2

// ------------------------------------------------------------------ model

type lcModel struct {
	Cli [lcClients]byte         // n(one) a(ctivated) d(eactivated)
	Att [lcClients][lcDocs]byte // n(one) a(ttached) d(etached) r(emoved)
	Gen [lcClients][lcDocs]int  // document generation the attachment refers to
	Cur [lcDocs]int             // current generation of the key (bumped by remove)
	Has [lcDocs]bool            // a live document exists for the key
	Log [lcDocs]int             // changes stored in the current generation (not part of the canonical state)
	// Half: a refused attach (attx) happened for this pair since the client's
	// last successful attach / activation. It changes nothing about what the
	// state machine accepts; it is part of the canonical state so that the
	// state is reported (not part of the canonical state).
	Half [lcClients][lcDocs]bool
	// AllowX: attx is part of the alphabet (part (c) only)
	AllowX bool
}

func newLcModel() *lcModel {
	m := &lcModel{}
	for c := range m.Cli {
		m.Cli[c] = 'n'
		for d := range m.Att[c] {
			m.Att[c][d] = 'n'
		}
	}
	return m
}

func (m *lcModel) canon() string {
	var sb strings.Builder
	for c := range m.Cli {
		sb.WriteByte(m.Cli[c])
		for d := range m.Att[c] {
			sb.WriteByte(m.Att[c][d])
			// whether the attachment refers to the key's current generation matters
			if m.Att[c][d] != 'n' && m.Gen[c][d] == m.Cur[d] && m.Has[d] {
				sb.WriteByte('=')
			} else {
				sb.WriteByte('<')
			}
		}
		sb.WriteByte('|')
	}
	for d := range m.Has {
		if m.Has[d] {
			sb.WriteByte('L')
		} else {
			sb.WriteByte('-')
		}
	}
	return sb.String()
}

func (m *lcModel) live(c, d int) bool {
	return m.Att[c][d] == 'a' && m.Gen[c][d] == m.Cur[d] && m.Has[d]
}

// step returns whether the documented state machine accepts the event, and
// updates the model when it does. removedFlag: the response must say the
// document is removed.
func (m *lcModel) step(e lcEvent) (accept bool, removedFlag bool) {
	c, d := e.C, e.D
	switch e.K {
	case "act":
		// every activation creates a NEW client identity (the server never
		// reuses an id): it starts without attachments
		m.Cli[c] = 'a'
		for dd := range m.Att[c] {
			m.Att[c][dd] = 'n'
			m.Half[c][dd] = false
		}
		return true, false
	case "deact":
		if m.Cli[c] != 'a' {
			return false, false
		}
		m.Cli[c] = 'd'
		for dd := range m.Att[c] {
			if m.Att[c][dd] == 'a' {
				m.Att[c][dd] = 'd'
			}
		}
		return true, false
	case "att":
		if m.Cli[c] != 'a' {
			return false, false
		}
		if m.live(c, d) {
			return false, false // already attached
		}
		if !m.Has[d] {
			m.Has[d] = true
			m.Log[d] = 0
		}
		m.Att[c][d] = 'a'
		m.Gen[c][d] = m.Cur[d]
		m.Half[c][d] = false
		return true, false
	case "attr":
		// re-attach with the old (already detached) document instance: refused
		// while the key still names the document that instance belongs to;
		// otherwise the key names a different (new) document and this is an
		// ordinary first attach to it
		if m.Cli[c] != 'a' {
			return false, false
		}
		if m.Gen[c][d] == m.Cur[d] && m.Has[d] {
			return false, false
		}
		if !m.Has[d] {
			m.Has[d] = true
			m.Log[d] = 0
		}
		m.Att[c][d] = 'a'
		m.Gen[c][d] = m.Cur[d]
		m.Half[c][d] = false
		return true, false
	case "attx":
		// an attach request that the server has to refuse after it started
		// working on it (the pack's client sequence has a gap): never accepted,
		// and the client is as little attached afterwards as before
		m.Half[c][d] = true
		return false, false
	case "pp":
		if m.Cli[c] != 'a' || m.Att[c][d] != 'a' {
			return false, false
		}
		if m.Gen[c][d] != m.Cur[d] || !m.Has[d] {
			return true, true // the document this client holds was removed
		}
		return true, false
	case "det":
		if m.Cli[c] != 'a' || m.Att[c][d] != 'a' {
			return false, false
		}
		removed := m.Gen[c][d] != m.Cur[d] || !m.Has[d]
		m.Att[c][d] = 'd'
		return true, removed
	case "rm":
		if m.Cli[c] != 'a' || m.Att[c][d] != 'a' {
			return false, false
		}
		wasLive := m.live(c, d)
		m.Att[c][d] = 'r'
		if wasLive {
			m.Has[d] = false
			m.Cur[d]++
		}
		return true, true
	}
	return false, false
}

func (m *lcModel) enabled() []lcEvent {
	var out []lcEvent
	for c := 0; c < lcClients; c++ {
		out = append(out, lcEvent{K: "act", C: c}, lcEvent{K: "deact", C: c})
		for d := 0; d < lcDocs; d++ {
			out = append(out, lcEvent{"att", c, d}, lcEvent{"pp", c, d}, lcEvent{"det", c, d}, lcEvent{"rm", c, d})
			// re-attaching with the old document instance is only meaningful while
			// the key still names the document that instance belongs to
			if m.Att[c][d] == 'd' && m.Gen[c][d] == m.Cur[d] && m.Has[d] && m.Cli[c] == 'a' {
				out = append(out, lcEvent{"attr", c, d})
			}
			// a failing attach, where the document exists and this client holds no
			// attachment to it (seeded change C11-4: what a half-done attach leaves
			// in the client's row must not count as attached)
			if m.AllowX && m.Cli[c] == 'a' && m.Has[d] && m.Att[c][d] != 'a' {
				out = append(out, lcEvent{"attx", c, d})
			}
		}
	}
	return out
}

// ------------------------------------------------------------------- impl

type lcRawDoc struct {
	doc   *document.Document
	docID string
	stop  chan struct{}
}

type lcImpl struct {
	r      *hist.Runner
	stub   v1connect.YorkieServiceClient
	proj   *types.Project
	ckey   [lcClients]string
	cid    [lcClients]string
	docs   [lcClients][lcDocs]*lcRawDoc
	dkey   [lcDocs]key.Key
	ctx    context.Context
	val    int
	closed []chan struct{}
	// every document id this namespace has seen (digest)
	seenDocIDs []string
	// digest: leave out this client's entry for this document (attx)
	maskClient, maskDoc string
}

const lcUnknownID = "000000000000000000000001"

func newLcImpl(r *hist.Runner) (*lcImpl, error) {
	p, err := r.Project(hist.Big, hist.Big)
	if err != nil {
		return nil, err
	}
	im := &lcImpl{r: r, stub: r.W.Raw(p), proj: p, ctx: context.Background()}
	n := r.W.NextID()
	for c := range im.ckey {
		im.ckey[c] = fmt.Sprintf("lc-client-%d-%d", n, c)
	}
	for d := range im.dkey {
		im.dkey[d] = key.Key(fmt.Sprintf("lc-doc-%d-%d", n, d))
	}
	return im, nil
}

func (im *lcImpl) close() {
	for _, ch := range im.closed {
		close(ch)
	}
}

func (im *lcImpl) newDoc(c, d int) *lcRawDoc {
	doc := document.New(im.dkey[d])
	stop := make(chan struct{})
	im.closed = append(im.closed, stop)
	go func() {
		for {
			select {
			case <-doc.Events():
			case <-stop:
				return
			}
		}
	}()
	if im.cid[c] != "" {
		if a, err := yktime.ActorIDFromHex(im.cid[c]); err == nil {
			doc.SetActor(a)
		}
	}
	return &lcRawDoc{doc: doc, stop: stop}
}

func (im *lcImpl) clientID(c int) string {
	if im.cid[c] == "" {
		return lcUnknownID
	}
	return im.cid[c]
}

type lcResult struct {
	ok      bool
	code    string
	removed bool
}

func lcErr(err error) lcResult {
	return lcResult{ok: false, code: connect.CodeOf(err).String() + ": " + hist.NormErr(err.Error())}
}

func (im *lcImpl) do(e lcEvent) lcResult {
	c, d := e.C, e.D
	defer im.r.W.WaitBackground()
	switch e.K {
	case "act":
		res, err := im.stub.ActivateClient(im.ctx, connect.NewRequest(&api.ActivateClientRequest{ClientKey: im.ckey[c]}))
		if err != nil {
			return lcErr(err)
		}
		im.cid[c] = res.Msg.ClientId
		for dd := range im.docs[c] {
			im.docs[c][dd] = nil
		}
		return lcResult{ok: true}
	case "deact":
		_, err := im.stub.DeactivateClient(im.ctx, connect.NewRequest(&api.DeactivateClientRequest{ClientId: im.clientID(c), Synchronous: true}))
		if err != nil {
			return lcErr(err)
		}
		return lcResult{ok: true}
	case "att", "attr":
		rd := im.docs[c][d]
		if e.K == "att" || rd == nil {
			rd = im.newDoc(c, d)
		}
		im.val++
		v := im.val
		_ = rd.doc.Update(func(r *yjson.Object, p *document.Presence) error { r.SetInteger("k", v); return nil })
		pbPack, err := converter.ToChangePack(rd.doc.CreateChangePack())
		if err != nil {
			return lcErr(err)
		}
		res, err := im.stub.AttachDocument(im.ctx, connect.NewRequest(&api.AttachDocumentRequest{ClientId: im.clientID(c), ChangePack: pbPack}))
		if err != nil {
			return lcErr(err)
		}
		pack, err := converter.FromChangePack(res.Msg.ChangePack)
		if err != nil {
			return lcErr(err)
		}
		if err := rd.doc.ApplyChangePack(pack); err != nil {
			return lcErr(err)
		}
		rd.docID = res.Msg.DocumentId
		im.docs[c][d] = rd
		return lcResult{ok: true, removed: pack.IsRemoved}
	case "attx":
		bad := im.newDoc(c, d)
		for i := 0; i < 2; i++ {
			im.val++
			v := im.val
			_ = bad.doc.Update(func(r *yjson.Object, p *document.Presence) error { r.SetInteger("k", v); return nil })
		}
		pack := bad.doc.CreateChangePack()
		pack.Changes = pack.Changes[1:] // the first change is missing: client sequence starts at 2
		pbPack, err := converter.ToChangePack(pack)
		if err != nil {
			return lcErr(err)
		}
		if _, err := im.stub.AttachDocument(im.ctx, connect.NewRequest(&api.AttachDocumentRequest{ClientId: im.clientID(c), ChangePack: pbPack})); err != nil {
			return lcErr(err)
		}
		return lcResult{ok: true}
	case "pp", "det", "rm":
		rd := im.docs[c][d]
		docID := lcUnknownID
		var doc *document.Document
		if rd != nil {
			docID, doc = rd.docID, rd.doc
		} else {
			// never attached by this client: use the live document's id if there is one
			if di, err := im.r.W.BE.DB.FindDocInfoByKey(im.ctx, im.proj.ID, im.dkey[d]); err == nil && di != nil {
				docID = di.ID.String()
			}
			doc = im.newDoc(c, d).doc
		}
		// a sync and a detach carry the client's latest local edit (client.Detach
		// sends what is still unsent)
		if (e.K == "pp" || e.K == "det") && doc.Status() != document.StatusRemoved {
			im.val++
			v := im.val
			_ = doc.Update(func(r *yjson.Object, p *document.Presence) error { r.SetInteger("k", v); return nil })
		}
		pack := doc.CreateChangePack()
		if e.K == "rm" {
			pack.IsRemoved = true
		}
		pbPack, err := converter.ToChangePack(pack)
		if err != nil {
			return lcErr(err)
		}
		var resPack *api.ChangePack
		switch e.K {
		case "pp":
			res, err := im.stub.PushPullChanges(im.ctx, connect.NewRequest(&api.PushPullChangesRequest{ClientId: im.clientID(c), DocumentId: docID, ChangePack: pbPack}))
			if err != nil {
				return lcErr(err)
			}
			resPack = res.Msg.ChangePack
		case "det":
			res, err := im.stub.DetachDocument(im.ctx, connect.NewRequest(&api.DetachDocumentRequest{ClientId: im.clientID(c), DocumentId: docID, ChangePack: pbPack}))
			if err != nil {
				return lcErr(err)
			}
			resPack = res.Msg.ChangePack
		case "rm":
			res, err := im.stub.RemoveDocument(im.ctx, connect.NewRequest(&api.RemoveDocumentRequest{ClientId: im.clientID(c), DocumentId: docID, ChangePack: pbPack}))
			if err != nil {
				return lcErr(err)
			}
			resPack = res.Msg.ChangePack
		}
		p2, err := converter.FromChangePack(resPack)
		if err != nil {
			return lcErr(err)
		}
		if rd != nil {
			if err := rd.doc.ApplyChangePack(p2); err != nil {
				return lcErr(err)
			}
		}
		return lcResult{ok: true, removed: p2.IsRemoved}
	}
	return lcResult{}
}

// digest renders what the lifecycle rules are about, for this namespace's
// project: every document (key, head, epoch, removed or not), the number of
// stored changes per document, every client (status and per-document status /
// checkpoint) and every version-vector row. Timestamps are left out.
func (im *lcImpl) digest() string {
	var sb strings.Builder
	db := im.r.W.MemDB
	// the documents of this namespace: every id a client was ever given, plus
	// the live document of each key
	ids := map[string]bool{}
	for c := range im.docs {
		for d := range im.docs[c] {
			if rd := im.docs[c][d]; rd != nil && rd.docID != "" {
				ids[rd.docID] = true
			}
		}
	}
	for _, id := range im.seenDocIDs {
		ids[id] = true
	}
	for d := range im.dkey {
		if di, err := im.r.W.BE.DB.FindDocInfoByKey(im.ctx, im.proj.ID, im.dkey[d]); err == nil && di != nil {
			ids[di.ID.String()] = true
		}
	}
	var sorted []string
	for id := range ids {
		sorted = append(sorted, id)
	}
	sort.Strings(sorted)
	im.seenDocIDs = sorted
	for _, id := range sorted {
		d, err := im.r.W.BE.DB.FindDocInfoByRefKey(im.ctx, types.DocRefKey{ProjectID: im.proj.ID, DocID: types.ID(id)})
		if err != nil {
			fmt.Fprintf(&sb, "doc %s: %v\n", id, err)
			continue
		}
		fmt.Fprintf(&sb, "doc %s key=%s head=%d epoch=%d removed=%v changes=%d\n", d.ID, d.Key, d.ServerSeq, d.Epoch, !d.RemovedAt.IsZero(), im.logLenOf(id))
	}
	for _, cid := range im.cid {
		if cid == "" {
			continue
		}
		c, err := im.r.W.BE.DB.FindClientInfoByRefKey(im.ctx, types.ClientRefKey{ProjectID: im.proj.ID, ClientID: types.ID(cid)})
		if err != nil {
			fmt.Fprintf(&sb, "client %s: %v\n", cid, err)
			continue
		}
		var ids []string
		for id := range c.Documents {
			ids = append(ids, id.String())
		}
		sort.Strings(ids)
		fmt.Fprintf(&sb, "client %s status=%s", c.ID, c.Status)
		for _, id := range ids {
			cd := c.Documents[types.ID(id)]
			if cid == im.maskClient && id == im.maskDoc {
				// a refused attach may leave its "attaching" marker in this one
				// entry (it counts as not attached: the following events check that)
				continue
			}
			fmt.Fprintf(&sb, " [%s %s %d/%d]", id, cd.Status, cd.ServerSeq, cd.ClientSeq)
		}
		sb.WriteByte('\n')
	}
	for _, raw := range db.DumpTableForVerif("versionvectors") {
		v := raw.(*database.VersionVectorInfo)
		if v.ProjectID != im.proj.ID {
			continue
		}
		fmt.Fprintf(&sb, "vv %s %s %s\n", v.DocID, v.ClientID, v.VersionVector.Marshal())
	}
	return sb.String()
}

// logLen returns the number of stored changes of client c's document instance.
func (im *lcImpl) logLenOf(docID string) int {
	infos, err := im.r.W.BE.DB.FindChangeInfosBetweenServerSeqs(im.ctx, types.DocRefKey{ProjectID: im.proj.ID, DocID: types.ID(docID)}, 1, math.MaxInt64)
	if err != nil {
		return -1
	}
	return len(infos)
}

// ---------------------------------------------------------------- explore

// lcReplay replays seq on a fresh namespace, comparing the implementation with
// the model at every step. It returns the model reached and the first
// disagreement.
func lcReplay(r *hist.Runner, seq []lcEvent) (*lcModel, string) {
	im, err := newLcImpl(r)
	if err != nil {
		return nil, "harness: " + err.Error()
	}
	defer im.close()
	m := newLcModel()
	for i, e := range seq {
		// observations before the step
		var beforeLog = -2
		var watchDoc string
		if rd := im.docs[e.C][e.D]; rd != nil && (e.K == "pp" || e.K == "det") {
			watchDoc = rd.docID
			beforeLog = im.logLenOf(watchDoc)
		}
		wasRemovedGen := m.Att[e.C][e.D] == 'a' && (m.Gen[e.C][e.D] != m.Cur[e.D] || !m.Has[e.D])
		accept, removedFlag := m.step(e)
		var digestBefore string
		im.maskClient, im.maskDoc = "", ""
		if e.K == "attx" {
			if di, err := im.r.W.BE.DB.FindDocInfoByKey(im.ctx, im.proj.ID, im.dkey[e.D]); err == nil && di != nil {
				im.maskClient, im.maskDoc = im.cid[e.C], di.ID.String()
			}
		}
		if !accept {
			digestBefore = im.digest()
		}
		got := im.do(e)
		where := fmt.Sprintf("step %d %s", i, e)
		if got.ok != accept {
			return m, fmt.Sprintf("%s: documented state machine %s, server %s (%s)", where, acc(accept), acc(got.ok), got.code)
		}
		if !accept {
			// a refused request takes no effect: documents (removal, head, epoch),
			// stored changes, client and attachment states and version-vector rows
			// of this namespace are what they were
			if after := im.digest(); after != digestBefore {
				return m, fmt.Sprintf("%s: the server refused the request (%s) but its stored state changed\n%s", where, got.code, firstDiff(digestBefore, after))
			}
			continue
		}
		if e.K != "act" && e.K != "deact" && got.removed != removedFlag {
			return m, fmt.Sprintf("%s: removed flag in response = %v, expected %v", where, got.removed, removedFlag)
		}
		if wasRemovedGen && watchDoc != "" {
			if n := im.logLenOf(watchDoc); n != beforeLog {
				return m, fmt.Sprintf("%s: a change was stored in a removed document (log %d -> %d)", where, beforeLog, n)
			}
		}
		// coupling with the version-vector table and the stored client status
		if e.K == "det" || e.K == "deact" || e.K == "rm" {
			if msg := lcCheckRows(im, m, e); msg != "" {
				return m, where + ": " + msg
			}
		}
	}
	return m, ""
}

func acc(b bool) string {
	if b {
		return "accepts"
	}
	return "rejects"
}

func lcCheckRows(im *lcImpl, m *lcModel, e lcEvent) string {
	cid := im.cid[e.C]
	if cid == "" {
		return ""
	}
	rows := im.r.W.MemDB.DumpTableForVerif("versionvectors")
	ci, err := im.r.W.BE.DB.FindClientInfoByRefKey(im.ctx, types.ClientRefKey{ProjectID: im.proj.ID, ClientID: types.ID(cid)})
	if err != nil {
		return "client info: " + err.Error()
	}
	for d := 0; d < lcDocs; d++ {
		rd := im.docs[e.C][d]
		if rd == nil || rd.docID == "" {
			continue
		}
		if m.Att[e.C][d] == 'a' {
			continue
		}
		for _, raw := range rows {
			v := raw.(*database.VersionVectorInfo)
			if v.ClientID.String() == cid && v.DocID.String() == rd.docID {
				return fmt.Sprintf("version-vector row of c%d for d%d still present (status %c)", e.C, d, m.Att[e.C][d])
			}
		}
		if di := ci.Documents[types.ID(rd.docID)]; di != nil && di.Status == database.DocumentAttached {
			return fmt.Sprintf("stored status of (c%d,d%d) is still attached, model says %c", e.C, d, m.Att[e.C][d])
		}
	}
	if e.K == "deact" && ci.Status != database.ClientDeactivated {
		return "client status is not deactivated"
	}
	return ""
}

type lcCase struct {
	Seq []lcEvent `json:"seq"`
}

func c11Run(env *Env) *Result {
	res := NewResult()
	r, err := Runner()
	if err != nil {
		res.HarnessErr = append(res.HarnessErr, err.Error())
		return res
	}
	report := func(seq []lcEvent, msg string) {
		raw, _ := json.Marshal(lcCase{Seq: seq})
		last := seq[len(seq)-1]
		if i := strings.Index(msg, "step "); i >= 0 {
			var n int
			fmt.Sscanf(msg[i:], "step %d", &n)
			if n < len(seq) {
				last = seq[n]
			}
		}
		var parts []string
		for _, e := range seq {
			parts = append(parts, e.String())
		}
		res.AddFound(Found{Property: "C11", Kind: "lifecycle-mismatch", Sig: "lifecycle-mismatch:" + last.K,
			Detail: msg + "\nsequence: " + strings.Join(parts, " "), Case: raw,
			Core: "lifecycle-mismatch|" + last.K + "|" + hist.NormErr(afterColon(msg))})
	}
	// (a) ALL sequences up to length L (no state merging)
	maxLen := 4
	if env.Tier == "thorough" {
		maxLen = 5
	}
	var seq []lcEvent
	var rec func(m *lcModel, idx *int)
	count := 0
	incomplete := false
	rec = func(m *lcModel, idx *int) {
		for _, e := range m.enabled() {
			if env.Expired() {
				incomplete = true
				return
			}
			seq = append(seq, e)
			mine := true
			if len(seq) >= 2 {
				// shard by the first two events
				h := 0
				for _, x := range seq[:2] {
					h = h*131 + int(x.K[0])*7 + len(x.K) + x.C*3 + x.D*5
				}
				mine = h%env.NShards == env.Shard
			} else {
				mine = env.Shard == 0
			}
			m2 := *m
			m2.step(e)
			if mine {
				if rr, err := Runner(); err == nil {
					r = rr
				}
				count++
				if count%16 == 0 {
					raw, _ := json.Marshal(lcCase{Seq: seq})
					env.Current(&Found{Property: "C11", Case: raw})
				}
				_, msg := lcReplay(r, seq)
				res.Evaluations++
				res.Transitions++
				if len(seq) >= 3 {
					res.Nontrivial++
				}
				if msg != "" {
					report(append([]lcEvent(nil), seq...), msg)
					seq = seq[:len(seq)-1]
					continue
				}
				if len(res.Samples) < 3 && len(seq) == maxLen && count%997 == 0 {
					var parts []string
					for _, x := range seq {
						parts = append(parts, x.String())
					}
					res.Sample(strings.Join(parts, " "))
				}
			}
			if len(seq) < maxLen {
				rec(&m2, idx)
			}
			seq = seq[:len(seq)-1]
		}
	}
	var idx int
	rec(newLcModel(), &idx)
	if incomplete {
		res.Incomplete = append(res.Incomplete, "c11/all-sequences")
	} else if env.Shard == 0 {
		res.Completed = append(res.Completed, fmt.Sprintf("c11/all-sequences<=%d", maxLen))
	}
	// (c) behind a refused attach: after two fixed prefixes that put a live
	// document in place, ALL sequences of length <= 3 (thorough 4) over the full
	// alphabet plus attx (an attach the server refuses after it started working
	// on it; what it leaves in the client's row must not count as attached)
	for pi, prefix := range [][]lcEvent{
		{{"act", 0, 0}, {"att", 0, 0}, {"act", 1, 0}},
		{{"act", 0, 0}, {"att", 0, 0}, {"det", 0, 0}},
	} {
		m0 := newLcModel()
		for _, e := range prefix {
			m0.step(e)
		}
		m0.AllowX = true
		depth := 3
		if env.Tier == "thorough" {
			depth = 4
		}
		n := 0
		var recX func(m *lcModel, tail []lcEvent, hasX bool)
		recX = func(m *lcModel, tail []lcEvent, hasX bool) {
			for _, e := range m.enabled() {
				if env.Expired() {
					incomplete = true
					return
				}
				m2 := *m
				m2.step(e)
				t2 := append(append([]lcEvent(nil), tail...), e)
				x2 := hasX || e.K == "attx"
				n++
				if x2 && n%env.NShards == env.Shard {
					if rr, err := Runner(); err == nil {
						r = rr
					}
					full := append(append([]lcEvent(nil), prefix...), t2...)
					if n%16 == 0 {
						raw, _ := json.Marshal(lcCase{Seq: full})
						env.Current(&Found{Property: "C11", Case: raw})
					}
					_, msg := lcReplay(r, full)
					res.Evaluations++
					res.Transitions++
					res.Nontrivial++
					res.Count("sequences_behind_a_refused_attach", 1)
					if msg != "" {
						report(full, msg)
						continue
					}
				}
				if len(t2) < depth {
					recX(&m2, t2, x2)
				}
			}
		}
		recX(m0, nil, false)
		if !incomplete && env.Shard == 0 {
			res.Completed = append(res.Completed, fmt.Sprintf("c11/behind-refused-attach/prefix%d/len<=%d", pi, depth))
		}
	}
	// (b) breadth-first search over canonical model states to a fixpoint:
	// one shortest path per state, every enabled event tried from every state.
	if env.Shard == 0 || true {
		seen := map[string][]lcEvent{newLcModel().canon(): nil}
		frontier := [][]lcEvent{nil}
		trans := 0
		for len(frontier) > 0 && !env.Expired() {
			path := frontier[0]
			frontier = frontier[1:]
			m := newLcModel()
			for _, e := range path {
				m.step(e)
			}
			for _, e := range m.enabled() {
				m2 := *m
				m2.step(e)
				k := m2.canon()
				np := append(append([]lcEvent(nil), path...), e)
				trans++
				if trans%env.NShards == env.Shard {
					if rr, err := Runner(); err == nil {
						r = rr
					}
					if trans%16 == 0 {
						raw, _ := json.Marshal(lcCase{Seq: np})
						env.Current(&Found{Property: "C11", Case: raw})
					}
					_, msg := lcReplay(r, np)
					res.Evaluations++
					res.Transitions++
					res.Nontrivial++
					if msg != "" {
						report(np, msg)
					}
				}
				if _, ok := seen[k]; !ok {
					seen[k] = np
					frontier = append(frontier, np)
				}
			}
		}
		if len(frontier) > 0 {
			res.Incomplete = append(res.Incomplete, "c11/bfs")
		} else if env.Shard == 0 {
			res.States = len(seen)
			res.Completed = append(res.Completed, fmt.Sprintf("c11/bfs-fixpoint/%d-states", len(seen)))
		}
		for k := range seen {
			if env.Shard == 0 {
				res.Outcome(k)
			}
		}
	}
	return res
}

func afterColon(s string) string {
	if i := strings.Index(s, ": "); i >= 0 {
		return s[i+2:]
	}
	return s
}

func init() {
	register(&Check{
		ID:    "C11",
		Level: "model_checking",
		Rule: "reference model = the documented client/document state machine as plain Go values (client: none/activated/deactivated; (client,document): none/attached/detached/removed; document generations). " +
			"(c) behind a refused attach: after the prefixes [act c0, att c0 d0, act c1] and [act c0, att c0 d0, det c0 d0], ALL sequences of <=3 (thorough 4) events over the same alphabet plus attx (an AttachDocument whose pack has a gap in its client sequence: the server refuses it after it started working on it; its marker in the client's row is masked in the digest and must not count as attached), executed when they contain attx; " +
			"(a) ALL sequences of length <=4 (thorough 5) over {Activate, Deactivate(sync), Attach(new instance), Attach(reused detached instance), PushPull, Detach, Remove} x 2 clients x 2 documents, valid and invalid, " +
			"each replayed with raw RPC stubs against the real server; (b) breadth-first search over canonical model states to a fixpoint (every enabled event from every reachable state, shortest path replayed on the real server); " +
			"oracle at every step: accept/reject equals the model, removed flag in responses equals the model, no change is stored in a removed document, " +
			"and after Detach/Deactivate/Remove the client's version-vector row is gone and its stored status is not attached; states = canonical model states, transitions = replayed (path, event) pairs",
		Assume: []string{"memdb backend", "canonical state = client status, attachment status, whether the attachment refers to the key's live generation, liveness of each key; " +
			"checkpoints/log length are not part of it (handlers do not branch on them for accept/reject), and part (a) does not merge states at all"},
		QuickBudget: 300 * time.Second,
		Run:         c11Run,
		Reproduce: func(f *Found) (bool, error) {
			var c lcCase
			if err := json.Unmarshal(f.Case, &c); err != nil {
				return false, err
			}
			r, err := Runner()
			if err != nil {
				return false, err
			}
			_, msg := lcReplay(r, c.Seq)
			if strings.HasPrefix(msg, "harness") {
				return false, fmt.Errorf("%s", msg)
			}
			return msg != "", nil
		},
	})
	_ = time.Second
}
