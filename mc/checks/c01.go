package checks

import (
	"fmt"
	"strings"
	"time"

	"verifmc/hist"
)

// Alphabets per data type (edit kinds of the public API, see hist/ops.go).
var (
	objOps = []string{"o.set1", "o.set2", "o.setstr1", "o.del1", "o.setobj1", "o.setin1", "o.setarr1", "o.pushin1", "o.delroot", "o.newroot"}
	arrOps = []string{"a.push", "a.ins0", "a.insL", "a.del0", "a.delL", "a.delM", "a.mv0L", "a.mvL0", "a.mvFrontL", "a.mvLast0", "a.mvBef0L", "a.mvBefL0", "a.set0", "a.setL", "a.pushobj", "a.setinL", "a.delroot", "a.newroot"}
	txtOps = []string{"t.ins0", "t.insM", "t.insE", "t.ins2M", "t.delF", "t.delM", "t.delB", "t.del1M", "t.delAll", "t.repM", "t.repAll", "t.styF", "t.styB", "t.styAll2", "t.insAttrM", "t.delroot"}
	cntOps = []string{"c.inc1", "c.incv", "c.dec", "c.incmax", "c.inclong", "c.incf", "cl.inc1", "cl.incmax", "c.reset", "c.delroot"}
)

type family struct {
	name string
	init []string
	ops  []string
}

func families() []family {
	return []family{
		{"obj", []string{"init.o"}, objOps},
		{"arr", []string{"init.a"}, arrOps},
		{"txt", []string{"init.t"}, txtOps},
		{"cnt", []string{"init.c"}, cntOps},
		{"tree", []string{"init.tr"}, treeOps},
	}
}

// Quick-tier core alphabets: one representative per behaviour class (the
// thorough tier uses the full alphabets above).
var (
	objCore  = []string{"o.set1", "o.del1", "o.setobj1", "o.setin1", "o.setarr1", "o.pushin1", "o.delroot"}
	arrCore  = []string{"a.push", "a.ins0", "a.delL", "a.del0", "a.mv0L", "a.mvFrontL", "a.mvLast0", "a.mvBefL0", "a.setL", "a.pushobj", "a.delroot"}
	txtCore  = []string{"t.ins0", "t.insM", "t.insE", "t.delF", "t.delM", "t.repM", "t.styF", "t.styB", "t.insAttrM"}
	cntCore  = []string{"c.inc1", "c.incmax", "c.inclong", "cl.incmax", "c.reset", "c.delroot"}
	treeCore = []string{"tr.insT0", "tr.insT1", "tr.delT0", "tr.insP0", "tr.insPE", "tr.delP0", "tr.repP0", "tr.sty0", "tr.rmsty0"}
)

func coreFamilies() []family {
	return []family{
		{"obj", []string{"init.o"}, objCore},
		{"arr", []string{"init.a"}, arrCore},
		{"txt", []string{"init.t"}, txtCore},
		{"cnt", []string{"init.c"}, cntCore},
		{"tree", []string{"init.tr"}, treeCore},
	}
}

func c01Scenarios(tier string) []*hist.Scenario {
	return append(append(c01FirstPublication(), c01ScenariosBase(tier)...), c01Multi(tier)...)
}

// multiOps: kinds whose one change carries two operations (one Update, two
// calls): the pairs an editor makes atomically.
var multiOps = []string{"m.o1+a", "m.o1+o1", "m.o1+del1", "m.o1+o2", "m.t+c", "m.t+t", "m.c+c", "m.a+a", "m.a+del", "m.obj+in"}

func c01Multi(tier string) []*hist.Scenario {
	var out []*hist.Scenario
	big := hist.Config{Threshold: hist.Big, Interval: hist.Big}
	init := []string{"init.o", "init.a", "init.t", "init.c"}
	als := pairs(multiOps)
	for _, al := range als {
		if tier == "quick" && len(al) == 2 {
			continue
		}
		out = append(out, &hist.Scenario{
			Name: fmt.Sprintf("c01/multi/%s/N2K2Y3", strings.Join(al, "+")),
			N:    2, Init: init, Alphabet: al, K: 2, Y: 3, Cfg: big,
		})
	}
	return out
}

func c01FirstPublication() []*hist.Scenario {
	var out []*hist.Scenario
	big := hist.Config{Threshold: hist.Big, Interval: hist.Big}
	// the FIRST change a client ever publishes (no replica has an entry for its
	// actor in any version vector yet), concurrent with a removal that covers
	// its position by a client whose clock is ahead (a third client's edit was
	// pulled first): client 0 removes, client 1 makes any edit, client 2
	// inserts inside; one edit each, every placement of three syncs
	{
		for _, tr := range []struct {
			fam     string
			init    []string
			rm, ins []string
			bump    string
		}{
			{"txt", []string{"init.t"}, []string{"t.repM", "t.delAll"}, []string{"t.insM", "t.insAttrM"}, "t.ins0"},
			{"tree", []string{"init.tr"}, []string{"tr.delP0", "tr.delT0"}, []string{"tr.insT1"}, "tr.insTE"},
			{"arr", []string{"init.a"}, []string{"a.delM", "a.delroot"}, []string{"a.ins1", "a.setL"}, "a.push"},
			{"obj", []string{"init.o"}, []string{"o.delroot", "o.del1"}, []string{"o.setin1", "o.setobj1"}, "o.set2"},
		} {
			out = append(out, &hist.Scenario{
				Name: fmt.Sprintf("c01/%s/first-publication/%s|%s/N3K3Y3", tr.fam, strings.Join(tr.rm, "+"), strings.Join(tr.ins, "+")),
				N:    3, Init: tr.init, Alphabet: append(append([]string{tr.bump}, tr.rm...), tr.ins...),
				PerClient: [][]string{tr.rm, {tr.bump}, tr.ins}, K: 3, Y: 3, MaxPerClient: 1, Cfg: big,
			})
		}
	}
	return out
}

func c01ScenariosBase(tier string) []*hist.Scenario {
	var out []*hist.Scenario
	big := hist.Config{Threshold: hist.Big, Interval: hist.Big}
	add := func(fam, tag string, init, al []string, n, k, y, maxPer int) {
		out = append(out, &hist.Scenario{
			Name: fmt.Sprintf("c01/%s/%s/N%dK%dY%d%s", fam, strings.Join(al, "+"), n, k, y, tag),
			N:    n, Init: init, Alphabet: al, K: k, Y: y, MaxPerClient: maxPer, Cfg: big,
		})
	}
	wide := func(fam string, init, al []string, n int) {
		out = append(out, &hist.Scenario{
			Name: fmt.Sprintf("c01/%s/%s/wideN%d", fam, strings.Join(al, "+"), n),
			N:    n, Init: init, Alphabet: al, K: n, Y: n, MaxPerClient: 1, EditsFirst: true, MaxSyncPerClient: 1, Cfg: big,
		})
	}
	if tier == "quick" {
		for _, f := range coreFamilies() {
			for _, al := range pairs(f.ops) {
				add(f.name, "", f.init, al, 2, 2, 3, 0)
			}
		}
		// three clients, one edit each, every sync placement (single kinds)
		for _, f := range coreFamilies() {
			for _, op := range f.ops {
				add(f.name, "", f.init, []string{op}, 3, 3, 3, 1)
			}
		}
		// attribute registers compare tickets, never values: two writers of an
		// EQUAL value and one writer of a different value, three clients, one
		// write each, every sync placement (seeded change C01-3; all other style
		// kinds write a fresh value per event)
		add("txt", "", []string{"init.t"}, []string{"t.styFx", "t.styF"}, 3, 3, 3, 1)
		add("tree", "", []string{"init.tr"}, []string{"tr.sty0x", "tr.sty0"}, 3, 3, 3, 1)
		add("txt", "", []string{"init.t"}, []string{"t.styFx", "t.styF"}, 2, 3, 3, 0)
		// an edit on top of the client's own not-yet-synced edit, while a peer
		// concurrently removes / moves / overwrites what the first edit anchored on:
		// one client makes one edit, the other two (the second behind its own
		// first), both role assignments, K3 Y3 (1.9k histories each)
		for _, tr := range []struct {
			fam  string
			init []string
			a    string
			b    []string
		}{
			{"arr", []string{"init.a"}, "a.del0", []string{"a.ins0", "a.ins1"}},
			{"arr", []string{"init.a"}, "a.mv0L", []string{"a.ins0", "a.ins1"}},
			{"obj", []string{"init.o"}, "o.del1", []string{"o.setobj1", "o.setin1"}},
			{"obj", []string{"init.o"}, "o.set1", []string{"o.setobj1", "o.setin1"}},
			{"txt", []string{"init.t"}, "t.delM", []string{"t.insM", "t.insM1"}},
			{"txt", []string{"init.t"}, "t.repM", []string{"t.insM", "t.insM1"}},
			{"tree", []string{"init.tr"}, "tr.delT0", []string{"tr.insT1", "tr.insT2"}},
			{"tree", []string{"init.tr"}, "tr.delP0", []string{"tr.insT1", "tr.insT2"}},
		} {
			for swap := 0; swap < 2; swap++ {
				pc := [][]string{{tr.a}, tr.b}
				if swap == 1 {
					pc[0], pc[1] = pc[1], pc[0]
				}
				out = append(out, &hist.Scenario{
					Name: fmt.Sprintf("c01/%s/own-follow-up/%s|%s/swap%d/N2K3Y3", tr.fam, tr.a, strings.Join(tr.b, "+"), swap),
					N:    2, Init: tr.init, Alphabet: append([]string{tr.a}, tr.b...), PerClient: pc, K: 3, Y: 3, Cfg: big,
				})
			}
		}
		// four and five clients, wide and shallow: every subset of the clients
		// makes one (pairwise concurrent) edit, then every order in which the
		// clients sync once; 495 / 4 061 histories per kind
		for _, f := range coreFamilies() {
			for _, op := range f.ops {
				wide(f.name, f.init, []string{op}, 4)
			}
		}
		for _, f := range coreFamilies() {
			wide(f.name, f.init, f.ops[:1], 5)
		}
		return out
	}
	// Thorough, smallest shapes first (histories in normal form before no-effect
	// pruning, `vcheck countshape`): N2K2Y3 pair 0.84k, N3K3Y3 single 0.93k,
	// N2K2Y4 pair 2.4k, N3K3Y4 single 3.9k, N3K3Y3 pair 4.1k, N2K3Y4 pair 12.6k,
	// N4K4Y4 single 29k; wide-and-shallow N4 0.5k, N5 4.1k per kind (general N5
	// is 1.3M per kind: out of reach, not claimed).
	for _, f := range families() {
		for _, al := range pairs(f.ops) {
			add(f.name, "", f.init, al, 2, 2, 3, 0)
		}
	}
	for _, f := range families() {
		for _, op := range f.ops {
			add(f.name, "", f.init, []string{op}, 3, 3, 3, 1)
		}
	}
	for _, f := range coreFamilies() {
		for _, al := range pairs(f.ops) {
			add(f.name, "", f.init, al, 2, 2, 4, 0)
		}
	}
	for _, f := range coreFamilies() {
		for _, op := range f.ops {
			add(f.name, "", f.init, []string{op}, 3, 3, 4, 1)
		}
	}
	for _, f := range coreFamilies() {
		for _, al := range pairs(f.ops) {
			if len(al) == 2 {
				add(f.name, "", f.init, al, 3, 3, 3, 1)
			}
		}
	}
	for _, f := range coreFamilies() {
		for _, op := range f.ops[:3] {
			add(f.name, "", f.init, []string{op}, 4, 4, 4, 1)
		}
	}
	add("txt", "", []string{"init.t"}, []string{"t.styFx", "t.styF"}, 3, 3, 3, 1)
	add("tree", "", []string{"init.tr"}, []string{"tr.sty0x", "tr.sty0"}, 3, 3, 3, 1)
	add("txt", "", []string{"init.t"}, []string{"t.styFx", "t.styF"}, 2, 3, 4, 0)
	add("tree", "", []string{"init.tr"}, []string{"tr.sty0x", "tr.sty0"}, 2, 3, 4, 0)
	for _, f := range coreFamilies() {
		for _, op := range f.ops {
			wide(f.name, f.init, []string{op}, 4)
		}
	}
	for _, f := range coreFamilies() {
		for _, op := range f.ops {
			wide(f.name, f.init, []string{op}, 5)
		}
	}
	for _, f := range coreFamilies() {
		for _, al := range pairs(f.ops[:4]) {
			add(f.name, "", f.init, al, 2, 3, 4, 0)
		}
	}
	return out
}

func c01Eval(r *hist.Runner, sc *hist.Scenario, h []hist.Event, res *Result) ([]hist.Violation, bool) {
	r.AfterEvent = []func(x *hist.Exec, i int){sameCheckpointObserver}
	x := r.Run(sc, sc.Cfg, h)
	defer x.Close()
	r.AfterEvent = nil
	noEffect := len(x.Steps) > 0 && x.Steps[len(x.Steps)-1].NoEffect
	if noEffect {
		return nil, true
	}
	x.Quiesce()
	convergenceOracle(x)
	if res != nil && len(x.Viol) == 0 && len(x.Reps) > 0 {
		res.Outcome(sc.Init[0] + "|" + x.Reps[0].Doc.Marshal())
	}
	return x.Viol, false
}

func init() {
	spec := &HSpec{ID: "C01", Scenarios: c01Scenarios, Eval: c01Eval}
	registerH(spec, &Check{
		Level: "exploration",
		Rule: "every normal-form history (partial-order reduced) of <=K edits and <=Y syncs per scenario " +
			"(one scenario per data type x pair of edit kinds x client count: 2 clients pairs of kinds, 3 clients one edit each, 4 and 5 clients wide-and-shallow - every subset of clients makes one concurrent edit, then every order in which the clients sync once), each executed on real clients + real in-process server " +
			"followed by the quiescent closure; non-trivial = contains two edits by different clients that were concurrent " +
			"(the later author had not received the earlier edit); all enumerated histories are distinct by construction",
		Assume: []string{
			"memdb backend (MongoDB not available offline)",
			"values outside the alphabets (long strings, many keys) are not explored",
			"Go map iteration order inside the code under test is not controlled; every violation is re-executed 5x",
		},
		QuickBudget: 400 * time.Second,
	})
}

var treeOps = []string{"tr.insT0", "tr.insT1", "tr.insTE", "tr.delT0", "tr.delTAll0", "tr.repT0", "tr.insP0", "tr.insP1", "tr.insPE", "tr.delP0", "tr.delPL", "tr.repP0", "tr.sty0", "tr.styAll", "tr.rmsty0", "tr.delroot"}
