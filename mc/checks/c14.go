package checks

import (
	"encoding/json"
	"fmt"
	"sort"
	"strings"
	"time"

	"github.com/yorkie-team/yorkie/pkg/document"
	yjson "github.com/yorkie-team/yorkie/pkg/document/json"
	"github.com/yorkie-team/yorkie/pkg/key"

	"verifmc/hist"
)

var c14Content = []string{"o.set1", "o.set2", "o.del1", "o.setobj1", "o.setin1", "a.push", "a.ins0", "a.delL", "a.del0", "a.delM",
	"t.insM", "t.ins0", "t.insE", "t.delF", "t.delM", "t.repM", "c.inc1", "c.incv", "tr.insT1", "tr.delT0", "tr.insP0", "tr.delP0", "tr.insTE"}
var c14Extra = []string{"c.dec", "c.incmax", "c.inclong", "c.incf", "cl.inc1", "cl.incmax", "c.reset", "o.del2", "o.setstr1", "o.setarr1", "o.pushin1",
	"a.ins1", "a.insL", "a.pushobj", "a.setinL", "t.del1M", "t.delAll", "t.delB", "t.ins2M", "t.insAttrM", "t.insM1", "t.repAll",
	"m.o1+a", "m.o1+o1", "m.o1+del1", "m.o1+o2", "m.t+c", "m.t+t", "m.c+c", "m.a+a", "m.a+del", "m.obj+in"}
var c14Approx = []string{"t.styF", "t.styB", "tr.sty0", "tr.rmsty0", "a.mv0L", "a.mvFrontL", "a.setL", "a.set0"}

type c14case struct {
	Edits []string `json:"edits"`
	Word  string   `json:"word"`
}

// normalise merges text chunks / adjacent tree text nodes so that content is
// compared as characters, not as internal chunking.
func normalise(marshal string) string {
	var v any
	if err := json.Unmarshal([]byte(marshal), &v); err != nil {
		return marshal
	}
	b, _ := json.Marshal(normValue(v))
	return string(b)
}

func normValue(v any) any {
	switch t := v.(type) {
	case map[string]any:
		out := map[string]any{}
		for k, x := range t {
			out[k] = normValue(x)
		}
		if ch, ok := out["children"].([]any); ok {
			out["children"] = mergeTreeText(ch)
		}
		return out
	case []any:
		var xs []any
		for _, x := range t {
			xs = append(xs, normValue(x))
		}
		return mergeTextChunks(xs)
	}
	return v
}

func attrsOf(m map[string]any, k string) string {
	a, _ := m[k].(map[string]any)
	ks := make([]string, 0, len(a))
	for x := range a {
		ks = append(ks, x)
	}
	sort.Strings(ks)
	var sb strings.Builder
	for _, x := range ks {
		fmt.Fprintf(&sb, "%s=%v;", x, a[x])
	}
	return sb.String()
}

func mergeTextChunks(xs []any) []any {
	// a text is a list of objects that all have "val"
	if len(xs) == 0 {
		return xs
	}
	for _, x := range xs {
		m, ok := x.(map[string]any)
		if !ok {
			return xs
		}
		if _, ok := m["val"]; !ok {
			return xs
		}
	}
	var out []any
	for _, x := range xs {
		m := x.(map[string]any)
		if s, _ := m["val"].(string); s == "" {
			continue
		}
		if n := len(out); n > 0 {
			last := out[n-1].(map[string]any)
			if attrsOf(last, "attrs") == attrsOf(m, "attrs") {
				last["val"] = last["val"].(string) + m["val"].(string)
				continue
			}
		}
		c := map[string]any{}
		for k, v := range m {
			c[k] = v
		}
		out = append(out, c)
	}
	return out
}

func mergeTreeText(ch []any) []any {
	var out []any
	for _, x := range ch {
		m, ok := x.(map[string]any)
		if ok && m["type"] == "text" {
			if s, _ := m["value"].(string); s == "" {
				continue
			}
			if n := len(out); n > 0 {
				if last, ok := out[n-1].(map[string]any); ok && last["type"] == "text" {
					last["value"] = last["value"].(string) + m["value"].(string)
					continue
				}
			}
			c := map[string]any{}
			for k, v := range m {
				c[k] = v
			}
			out = append(out, c)
			continue
		}
		out = append(out, x)
	}
	return out
}

func c14NewDoc() *document.Document {
	d := document.New(key.Key("c14-doc"))
	drainEvents(d.Events())
	_ = d.Update(func(r *yjson.Object, p *document.Presence) error {
		for _, op := range []string{"init.o", "init.a", "init.t", "init.c", "init.tr"} {
			hist.Ops[op].Apply(r, p, 0)
		}
		return nil
	})
	_ = d.ClearHistory()
	return d
}

// c14Eval runs edits then the undo/redo word; exact=true compares contents
// with the recorded ones, otherwise only "never fails, clone==root".
func c14Eval(c *c14case, exact bool) (diff string, applicable bool) {
	defer releaseDocs()
	d := c14NewDoc()
	contents := []string{normalise(d.Marshal())}
	for i, op := range c.Edits {
		before := d.UndoStackLenForTest()
		nch := len(d.CreateChangePack().Changes)
		var perr any
		err := func() (err error) {
			defer func() { perr = recover() }()
			return d.Update(func(r *yjson.Object, p *document.Presence) error {
				hist.Ops[op].Apply(r, p, 10+i)
				return nil
			})
		}()
		if err != nil || perr != nil {
			return fmt.Sprintf("edit %d (%s): err=%v panic=%v", i, op, err, perr), true
		}
		if len(d.CreateChangePack().Changes) == nch {
			return "", false // edit had no effect: program pruned
		}
		if d.UndoStackLenForTest() > before || before == document.MaxUndoRedoStackDepth {
			contents = append(contents, normalise(d.Marshal()))
		} else {
			// no history entry: this step is not undoable; it becomes part of the base
			for k := range contents {
				_ = k
			}
			return "", false
		}
	}
	n := len(contents) - 1
	p := n
	// the history keeps the last MaxUndoRedoStackDepth steps: older ones cannot be undone
	floor := 0
	if n > document.MaxUndoRedoStackDepth {
		floor = n - document.MaxUndoRedoStackDepth
	}
	for wi, w := range c.Word {
		var err error
		var perr any
		func() {
			defer func() { perr = recover() }()
			if w == 'U' {
				err = d.Undo()
			} else {
				err = d.Redo()
			}
		}()
		if w == 'U' {
			p--
		} else {
			p++
		}
		if perr != nil {
			return fmt.Sprintf("word[%d]=%c: panic: %v", wi, w, perr), true
		}
		if err != nil {
			return fmt.Sprintf("word[%d]=%c: error: %v", wi, w, err), true
		}
		if a, b := d.Root().Marshal(), d.Marshal(); a != b {
			return fmt.Sprintf("word[%d]=%c: Root() %s != Marshal() %s", wi, w, a, b), true
		}
		if !exact {
			continue
		}
		if got := normalise(d.Marshal()); got != contents[p] {
			return fmt.Sprintf("after %q (%d of %d steps back): content\n  got  %s\n  want %s", c.Word[:wi+1], n-p, n, got, contents[p]), true
		}
		if d.CanUndo() != (p > floor) || d.CanRedo() != (p < n) {
			return fmt.Sprintf("after %q: CanUndo=%v CanRedo=%v, expected %v %v", c.Word[:wi+1], d.CanUndo(), d.CanRedo(), p > floor, p < n), true
		}
	}
	return "", true
}

// words enumerates all undo/redo words of length <= maxLen that are valid for n edits.
func words(n, maxLen int) []string {
	var out []string
	var rec func(w string, p int)
	rec = func(w string, p int) {
		if len(w) > 0 {
			out = append(out, w)
		}
		if len(w) == maxLen {
			return
		}
		if p > 0 {
			rec(w+"U", p-1)
		}
		if p < n {
			rec(w+"R", p+1)
		}
	}
	rec("", n)
	return out
}

func c14Run(env *Env) *Result {
	res := NewResult()
	maxEdits, maxWord := 3, 5
	if env.Tier == "thorough" {
		maxEdits, maxWord = 3, 8
	}
	run := func(alphabet []string, exact bool, label string, maxE int) {
		var progs [][]string
		var cur []string
		var gen func()
		gen = func() {
			if len(cur) > 0 {
				progs = append(progs, append([]string(nil), cur...))
			}
			if len(cur) == maxE {
				return
			}
			for _, a := range alphabet {
				cur = append(cur, a)
				gen()
				cur = cur[:len(cur)-1]
			}
		}
		gen()
		incomplete := false
		for pi, prog := range progs {
			if pi%env.NShards != env.Shard {
				continue
			}
			if env.Expired() {
				incomplete = true
				break
			}
			for _, w := range words(len(prog), maxWord) {
				c := &c14case{Edits: prog, Word: w}
				raw, _ := json.Marshal(c)
				if res.Evaluations%128 == 0 {
					env.Current(&Found{Property: "C14", Case: raw})
				}
				diff, ok := c14Eval(c, exact)
				if !ok {
					break // program not applicable (an edit had no effect)
				}
				res.Evaluations++
				if len(w) >= 2 {
					res.Nontrivial++
				}
				if len(w) == maxWord {
					res.Outcome(label + "|" + strings.Join(prog, ",") + "|" + w)
				}
				if diff != "" {
					kind := "undo-content"
					if !exact || strings.Contains(diff, "error") || strings.Contains(diff, "panic") || strings.Contains(diff, "Root()") {
						kind = "undo-failure"
					}
					// identity: the kinds of edits involved and the shortest failing word prefix
					res.AddFound(Found{Property: "C14", Kind: kind, Sig: kind + ":" + label,
						Detail: fmt.Sprintf("%s\ncase: %s", diff, raw), Case: raw,
						Core: fmt.Sprintf("%s|%s|%s|%s", kind, label, strings.Join(prog, ","), failingPrefix(diff, w))})
				} else if len(res.Samples) < 3 && len(w) == maxWord && pi%17 == 0 {
					res.Sample(c)
				}
			}
		}
		if incomplete {
			res.Incomplete = append(res.Incomplete, "c14/"+label)
		} else if env.Shard == 0 {
			res.Completed = append(res.Completed, fmt.Sprintf("c14/%s/edits<=%d/word<=%d", label, maxE, maxWord))
		}
	}
	run(c14Content, true, "content", maxEdits)
	// "to any depth": programs around the history's depth limit (50 steps; small
	// scopes never reach it). For every content kind that can be repeated, and
	// for the cycle over all of them, L = 49, 50, 51 and 53 steps, then all the
	// way back and forth again and short words at the top of the stacks.
	deep := func() {
		var progs [][]string
		var cycle []string
		for _, op := range c14Content {
			cycle = append(cycle, op)
		}
		for _, L := range []int{49, 50, 51, 53} {
			for _, op := range c14Content {
				pr := make([]string, L)
				for i := range pr {
					pr[i] = op
				}
				progs = append(progs, pr)
			}
			pr := make([]string, L)
			for i := range pr {
				pr[i] = cycle[i%len(cycle)]
			}
			progs = append(progs, pr)
		}
		for pi, prog := range progs {
			if pi%env.NShards != env.Shard || env.Expired() {
				continue
			}
			m := len(prog)
			if m > document.MaxUndoRedoStackDepth {
				m = document.MaxUndoRedoStackDepth
			}
			for _, w := range []string{"UU", "UURR", "UUURU", strings.Repeat("U", m), strings.Repeat("U", m) + strings.Repeat("R", m), strings.Repeat("U", m) + "RRU"} {
				c := &c14case{Edits: prog, Word: w}
				raw, _ := json.Marshal(c)
				env.Current(&Found{Property: "C14", Case: raw})
				diff, ok := c14Eval(c, true)
				if !ok {
					break // the kind cannot be repeated (second use has no effect / no history entry)
				}
				res.Evaluations++
				res.Nontrivial++
				res.Count("deep_programs", 1)
				if diff != "" {
					res.AddFound(Found{Property: "C14", Kind: "undo-content", Sig: "undo-content:content", Detail: fmt.Sprintf("%s\ncase: %s", truncateStr(diff, 1200), truncateStr(string(raw), 300)), Case: raw,
						Core: fmt.Sprintf("undo-content|deep|%s x%d|%s", prog[0], len(prog), truncateStr(failingPrefix(diff, w), 12))})
				}
			}
		}
		if env.Shard == 0 {
			res.Completed = append(res.Completed, "c14/deep/L=49,50,51,53")
		}
	}
	deep()
	if env.Tier == "thorough" {
		maxWord = 6
		run([]string{"o.set1", "o.del1", "a.push", "a.delL", "a.ins0", "t.insM", "t.delF", "t.repM", "tr.insT1", "tr.delP0"}, true, "content4", 4)
	}
	// the rest of the editing API and changes that carry several operations:
	// programs of <=2 (thorough 3) edits over the union alphabet
	ext := append(append([]string{}, c14Content...), c14Extra...)
	if env.Tier == "thorough" {
		maxWord = 6
		run(ext, true, "content-ext", 3)
	} else {
		run(ext, true, "content-ext", 2)
	}
	// text content outside the basic plane (offsets are UTF-16 units); every
	// position used is 0 or the end, so no edit lands inside a surrogate pair
	run([]string{"t.insU0", "t.insUE", "t.repAllU", "t.ins0", "t.insE", "t.delAll", "t.repAll", "o.set1"}, true, "content-u16", 3)
	mixed := append(append([]string{}, c14Approx...), "a.push", "t.insM", "tr.insT1", "o.set1")
	run(mixed, false, "approx", maxEdits)
	return res
}

func failingPrefix(diff, w string) string {
	var q string
	if i := strings.Index(diff, `after "`); i >= 0 {
		fmt.Sscanf(diff[i+6:], "%q", &q)
		return q
	}
	var wi int
	if _, err := fmt.Sscanf(diff, "word[%d]", &wi); err == nil && wi < len(w) {
		return w[:wi+1]
	}
	return w
}

func c14Reproduce(f *Found) (bool, error) {
	var c c14case
	if err := json.Unmarshal(f.Case, &c); err != nil {
		return false, err
	}
	diff, _ := c14Eval(&c, strings.Contains(f.Sig, ":content"))
	return diff != "", nil
}

func init() {
	register(&Check{
		ID:    "C14",
		Level: "exploration",
		Rule: "ALL programs of <=3 content edits (thorough: also <=4 over a 10-kind sub-alphabet) over a 23-kind alphabet (object set/delete/nested, array insert/delete, text insert/delete/replace, counter increase, tree text/element insert/delete without split) " +
			"on one real Document, each followed by ALL valid Undo/Redo words of length <=5 (thorough 8); the normalised content (characters/XML, chunking merged) recorded after each edit is the reference: " +
			"after every prefix of the word the content must equal the recorded content that many steps back/forward and CanUndo/CanRedo must match; " +
			"third set: ALL programs of <=2 (thorough <=3) edits over the union with 32 more kinds: other counter operands (negative, wrap-around, long, float, long counter), a replaced counter, nested array/object values, more text shapes, and 10 kinds whose change carries TWO operations (set+set of one key, set+delete, two keys, add+add, add+remove, create a container and fill it, text+counter); " +
			"fourth set: text content outside the basic plane (one character = two UTF-16 units) inserted / replaced at positions 0 and end, <=3 edits; " +
			"second set with styles, array moves and set-by-index: Undo/Redo never fail or panic and Root()==Marshal() after each; non-trivial = words of length >= 2; distinct by construction",
		Assume:      []string{"single replica, no remote changes (the property's quantifier); propagation to peers is C15"},
		QuickBudget: 120 * time.Second,
		Run:         c14Run,
		Reproduce:   c14Reproduce,
	})
}
