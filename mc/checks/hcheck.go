package checks

import (
	"crypto/sha1"
	"encoding/hex"
	"encoding/json"
	"fmt"
	"os"
	"strings"

	"verifmc/hist"
)

// HSpec describes a history-exploration check (Engine H).
type HSpec struct {
	ID        string
	Scenarios func(tier string) []*hist.Scenario
	// Eval runs one history (and its twin, if any) to completion, evaluates the
	// oracles and returns violations. It must Close the executions it makes.
	// res may be nil (reproduction mode).
	Eval func(r *hist.Runner, sc *hist.Scenario, h []hist.Event, res *Result) (viol []hist.Violation, lastNoEffect bool)
	// ShardDepth for subtree assignment.
	ShardDepth int
}

// Concurrent reports whether the history contains two effective edits by
// different clients where the later author had not yet received the earlier
// edit (no sync of the first author followed by a sync of the second between
// them).
func Concurrent(h []hist.Event) bool {
	for i, a := range h {
		if a.K != "e" && a.K != "un" && a.K != "re" {
			continue
		}
		for j := i + 1; j < len(h); j++ {
			b := h[j]
			if (b.K != "e" && b.K != "un" && b.K != "re") || b.C == a.C {
				continue
			}
			pushed := false
			delivered := false
			for k := i + 1; k < j; k++ {
				if h[k].IsServer() && h[k].C == a.C {
					pushed = true
				}
				if pushed && h[k].IsServer() && h[k].C == b.C {
					delivered = true
				}
			}
			if !delivered {
				return true
			}
		}
	}
	return false
}

var sharedRunner *hist.Runner

// Runner returns the process-wide runner.
func Runner() (*hist.Runner, error) {
	if sharedRunner == nil {
		r, err := hist.NewRunner()
		if err != nil {
			return nil, err
		}
		sharedRunner = r
	}
	if err := sharedRunner.Recycle(); err != nil {
		return nil, err
	}
	sharedRunner.W.Bind()
	sharedRunner.W.DBW.Before, sharedRunner.W.DBW.After = nil, nil
	return sharedRunner, nil
}

// RunH is the generic worker loop of an HSpec.
func RunH(spec *HSpec, env *Env) *Result {
	res := NewResult()
	depth := spec.ShardDepth
	if depth == 0 {
		depth = 2
	}
	coreCache := map[string]string{}
	coreSeen := map[string]int{}
	base := LoadInstances(spec.ID)
	flakyCores := FlakyCores(spec.ID)
	record := os.Getenv("VERIF_RECORD_INSTANCES") != ""
	scs := spec.Scenarios(env.Tier)
	if f := os.Getenv("VERIF_FILTER"); f != "" {
		// development aid: restrict to scenarios whose name contains the filter
		var keep []*hist.Scenario
		for _, sc := range scs {
			if strings.Contains(sc.Name, f) {
				keep = append(keep, sc)
			}
		}
		scs = keep
		res.Notes = append(res.Notes, "VERIF_FILTER="+f)
	}
	for _, sc := range scs {
		if env.Expired() {
			res.Incomplete = append(res.Incomplete, sc.Name)
			continue
		}
		incomplete := false
		st := hist.Enumerate(sc, depth, env.Shard, env.NShards, func(h []hist.Event, mine bool) bool {
			if env.Expired() {
				incomplete = true
				return false
			}
			r, err := Runner()
			if err != nil {
				res.HarnessErr = append(res.HarnessErr, err.Error())
				incomplete = true
				return false
			}
			env.Current(&Found{Property: spec.ID, Scenario: sc, Hist: h})
			var rr *Result
			if mine {
				rr = res
			}
			viol, noEffect := spec.Eval(r, sc, h, rr)
			if noEffect {
				return false
			}
			if mine {
				res.Evaluations++
				if Concurrent(h) {
					res.Nontrivial++
				}
				if len(res.Samples) < 3 && len(h) >= 4 && Concurrent(h) {
					res.Sample(map[string]any{"scenario": sc.Name, "init": sc.Init, "history": hist.HistString(h)})
				}
			}
			for _, v := range viol {
				if v.Kind == "harness" {
					res.HarnessErr = append(res.HarnessErr, v.Detail)
					continue
				}
				if !(mine || env.Shard == 0) {
					continue
				}
				cfg := sc.Cfg
				f := Found{Property: spec.ID, Kind: v.Kind, Sig: v.Sig, Detail: v.Detail, Scenario: sc, Cfg: &cfg, Hist: h, Core: v.Core}
				if f.Core == "" {
					inst := InstanceKey(sc, h, &v)
					ck := v.Kind + "|" + v.Sig + "|" + strings.Join(sc.Init, "+") + "|" + opSet(h)
					if base != nil && !record {
						if c, ok := base[inst]; ok {
							// a listed history: no need to minimise it again
							f.Core, f.KnownInstance, f.Instance = c, true, inst
							if coreSeen[f.Core] >= 1 {
								coreSeen[f.Core]++
								res.Count("known_instances_hit", 1)
								continue
							}
							coreSeen[f.Core]++
							res.Count("known_instances_hit", 1)
							res.AddFound(f)
							continue
						}
						ck = "new|" + ck
					}
					_ = flakyCores
					// Minimise here, in the worker, once per (oracle kind, signature, set of
					// event kinds): extensions of a violating history are still explored
					// (a known finding on a prefix must not hide a new violation further
					// down), so the same root cause shows up many times.
					if c, ok := coreCache[ck]; ok {
						f.Core = c
					} else if len(coreCache) < 400 {
						m := MinimiseH(spec)(&f)
						m.Core = CoreKey(m)
						// name a known root cause by what happened in the minimal history
						if fc := factCore(spec, m); fc != "" {
							m.Core = fc
						}
						coreCache[ck] = m.Core
						m.Original = hist.HistString(h)
						f = *m
					}
					if record {
						if lf := os.Getenv("VERIF_INSTANCE_LOG"); lf != "" {
							// development aid: which history is which instance
							if fh, err := os.OpenFile(lf, os.O_APPEND|os.O_CREATE|os.O_WRONLY, 0o644); err == nil {
								fmt.Fprintf(fh, "%s\t%s\t%s\t%s\t%s\n", inst, sc.Name, hist.HistString(h), v.Sig, firstLineOf(v.Detail))
								fh.Close()
							}
						}
						if res.Instances == nil {
							res.Instances = map[string]string{}
						}
						res.Instances[inst] = f.Core
					} else if base != nil && flakyCores[f.Core] {
						// a core whose set of violating histories is not the same in every run of
						// the unchanged tree (marked "~" in the baseline file): matched by core
						f.KnownInstance, f.Instance = true, inst
						res.Count("instances_of_flaky_cores", 1)
					} else if base != nil && !strings.HasSuffix(f.Core, "|array-set-on-previously-moved-element") {
						f.NewInstance, f.Instance, f.BaseCore = true, inst, f.Core
						f.Core += "|history-not-in-baseline"
						// does the ORIGINAL history violate every time?
						for k := 0; k < 4 && !f.Flaky; k++ {
							again := false
							vs, _ := spec.Eval(r, sc, h, nil)
							for _, w := range vs {
								if w.Kind == v.Kind && w.Sig == v.Sig {
									again = true
								}
							}
							if !again {
								f.Flaky = true
							}
						}
					}
					if n := coreSeen[f.Core]; n >= maxFoundPerSig {
						continue
					}
				}
				coreSeen[f.Core]++
				res.AddFound(f)
			}
			return true
		})
		res.Count("por_cut", st.PORCut)
		if incomplete {
			res.Incomplete = append(res.Incomplete, sc.Name)
		} else if env.Shard == 0 {
			res.Completed = append(res.Completed, sc.Name)
		}
	}
	return res
}

// factCore re-runs the minimal history once and names the violation by a
// tracked fact when one identifies a known root cause: a Set-by-index on an
// array element that had been moved before (RGATreeList.Set anchors on the
// element's original slot).
func factCore(spec *HSpec, m *Found) string {
	r, err := Runner()
	if err != nil {
		return ""
	}
	sc := *m.Scenario
	if m.Cfg != nil {
		sc.Cfg = *m.Cfg
	}
	hist.Facts = map[string]bool{}
	spec.Eval(r, &sc, m.Hist, nil)
	if hist.Facts["array-set-on-moved-element"] && (m.Kind == "diverge" || m.Kind == "sync-error" || m.Kind == "gc-twin" || m.Kind == "server-rebuild-error") {
		return m.Kind + "|" + m.Sig + "|array-set-on-previously-moved-element"
	}
	return ""
}

// InstanceKey identifies one violating history exactly: oracle kind,
// signature, initial content, configuration, client counts and every event.
func InstanceKey(sc *hist.Scenario, h []hist.Event, v *hist.Violation) string {
	cfg, _ := json.Marshal(sc.Cfg)
	sum := sha1.Sum([]byte(fmt.Sprintf("%s|%s|%s|%s|N%dL%d|ip%v|%s", v.Kind, v.Sig, strings.Join(sc.Init, "+"), cfg, sc.N, sc.Late, sc.InitialPresence, hist.HistString(h))))
	return hex.EncodeToString(sum[:8])
}

var instCache = map[string]map[string]string{}
var flakyCache = map[string]map[string]bool{}

// FlakyCores returns the cores marked "~<n>" in the baseline file: on the
// unchanged tree the set of histories that show them differs from run to run
// (the code under test iterates Go maps), so they are matched by core.
func FlakyCores(id string) map[string]bool {
	LoadInstances(id)
	return flakyCache[id]
}

// LoadInstances reads known_instances/<ID>.txt (nil when the check keeps no
// instance baseline). Format: "#<n> <core>" lines define cores, "<instance> <n>"
// lines list the violating histories of the unchanged tree.
func LoadInstances(id string) map[string]string {
	if m, ok := instCache[id]; ok {
		return m
	}
	b, err := os.ReadFile(VerifDir() + "/known_instances/" + id + ".txt")
	if err != nil {
		instCache[id] = nil
		return nil
	}
	cores := map[string]string{}
	m := map[string]string{}
	for _, l := range strings.Split(string(b), "\n") {
		if l == "" {
			continue
		}
		i := strings.IndexByte(l, ' ')
		if i < 0 {
			continue
		}
		if l[0] == '#' {
			cores[l[1:i]] = l[i+1:]
		} else if l[0] == '~' {
			if flakyCache[id] == nil {
				flakyCache[id] = map[string]bool{}
			}
			flakyCache[id][l[i+1:]] = true
		} else {
			m[l[:i]] = cores[l[i+1:]]
		}
	}
	instCache[id] = m
	return m
}

// ReproduceH re-runs a found history and reports whether the same kind+sig recurs.
func ReproduceH(spec *HSpec) func(f *Found) (bool, error) {
	return func(f *Found) (bool, error) {
		r, err := Runner()
		if err != nil {
			return false, err
		}
		sc := *f.Scenario
		if f.Cfg != nil {
			sc.Cfg = *f.Cfg
		}
		// Up to 3 attempts: outcomes that depend on Go map iteration order
		// inside the implementation do not recur on every run.
		for attempt := 0; attempt < 3; attempt++ {
			viol, _ := spec.Eval(r, &sc, f.Hist, nil)
			for _, v := range viol {
				if v.Kind == "harness" {
					return false, fmt.Errorf("harness: %s", v.Detail)
				}
				if v.Kind == f.Kind && v.Sig == f.Sig {
					return true, nil
				}
			}
		}
		return false, nil
	}
}

// MinimiseH removes events one at a time while the violation persists, then
// tries to drop Init ops; deterministic order, 1-minimal result.
func MinimiseH(spec *HSpec) func(f *Found) *Found {
	rep := ReproduceH(spec)
	return func(f *Found) *Found {
		cur := *f
		cur.Hist = append([]hist.Event(nil), f.Hist...)
		changed := true
		for changed {
			changed = false
			for i := 0; i < len(cur.Hist); i++ {
				cand := cur
				cand.Hist = append(append([]hist.Event(nil), cur.Hist[:i]...), cur.Hist[i+1:]...)
				if ok, err := rep(&cand); err == nil && ok {
					cur = cand
					changed = true
					i--
				}
			}
		}
		return &cur
	}
}

// registerH wires an HSpec into the registry.
// HSpecs lists the Engine H checks (for `vcheck count`).
var HSpecs = map[string]*HSpec{}

func registerH(spec *HSpec, c *Check) {
	HSpecs[spec.ID] = spec
	c.ID = spec.ID
	c.Run = func(env *Env) *Result { return RunH(spec, env) }
	c.Reproduce = ReproduceH(spec)
	c.Minimise = MinimiseH(spec)
	register(c)
}

// pairs returns all unordered pairs (with repetition) of names as alphabets.
func pairs(names []string) [][]string {
	var out [][]string
	for i := range names {
		for j := i; j < len(names); j++ {
			if i == j {
				out = append(out, []string{names[i]})
			} else {
				out = append(out, []string{names[i], names[j]})
			}
		}
	}
	return out
}

// convergenceOracle is C01's oracle, shared by several checks: after the
// quiescent closure all attached replicas marshal identically and equal the
// server's rebuild at the head.
func convergenceOracle(x *hist.Exec) {
	if x.Aborted || !x.Quiesced {
		return
	}
	reps := x.AttachedReps()
	if len(reps) == 0 {
		return
	}
	ref := reps[0].Doc.Marshal()
	for _, r := range reps[1:] {
		if m := r.Doc.Marshal(); m != ref {
			x.Viol = append(x.Viol, hist.Violation{Kind: "diverge", Sig: "diverge:replicas",
				Detail: fmt.Sprintf("client %d: %s\nclient %d: %s", reps[0].Role, ref, r.Role, m)})
			return
		}
	}
	sm, err := x.ServerMarshal(0)
	if err != nil {
		x.Viol = append(x.Viol, hist.Violation{Kind: "server-rebuild-error", Sig: "server-rebuild-error:" + hist.NormErr(err.Error()), Detail: err.Error()})
		return
	}
	if sm != ref {
		x.Viol = append(x.Viol, hist.Violation{Kind: "diverge", Sig: "diverge:server",
			Detail: fmt.Sprintf("replicas: %s\nserver:   %s", ref, sm)})
	}
}

// sameCheckpointObserver is the "synchronised to the same point" clause:
// whenever two attached replicas have no local changes and the same checkpoint
// serverSeq, their contents are equal.
func sameCheckpointObserver(x *hist.Exec, i int) {
	reps := x.AttachedReps()
	for a := 0; a < len(reps); a++ {
		for b := a + 1; b < len(reps); b++ {
			ra, rb := reps[a], reps[b]
			if ra.Doc.HasLocalChanges() || rb.Doc.HasLocalChanges() || ra.SyncErrs > 0 || rb.SyncErrs > 0 {
				continue
			}
			if ra.Doc.Checkpoint().ServerSeq != rb.Doc.Checkpoint().ServerSeq {
				continue
			}
			if ma, mb := ra.Doc.Marshal(), rb.Doc.Marshal(); ma != mb {
				x.Viol = append(x.Viol, hist.Violation{Kind: "diverge", Sig: "diverge:same-checkpoint",
					Detail: fmt.Sprintf("after event %d both at serverSeq %d\nclient %d: %s\nclient %d: %s",
						i, ra.Doc.Checkpoint().ServerSeq, ra.Role, ma, rb.Role, mb)})
				return
			}
		}
	}
}
