package checks

import (
	"encoding/json"
	"fmt"
	"sort"
	"strings"
	"time"

	"github.com/yorkie-team/yorkie/api/types"
	"github.com/yorkie-team/yorkie/pkg/cache"
	"github.com/yorkie-team/yorkie/pkg/document/presence"
	"github.com/yorkie-team/yorkie/server/backend/database"
	"github.com/yorkie-team/yorkie/server/backend/database/mongo"

	"verifmc/hist"
)

// C20 (a): the change-range cache (mongo.ChangeStore) composed exactly as
// mongo.Client.FindChangeInfosBetweenServerSeqs / CreateChangeInfos compose
// it, against a ground-truth table. Explicit-state search over ALL event
// sequences, de-duplicated on the canonical model state.

type csEvent struct {
	K  string `json:"k"` // pushop pushpr find rm evict
	A  int64  `json:"a,omitempty"`
	Bv int64  `json:"b,omitempty"`
}

func (e csEvent) String() string {
	switch e.K {
	case "find":
		return fmt.Sprintf("find(%d,%d)", e.A, e.Bv)
	case "pushop", "pushpr", "pushclr":
		return fmt.Sprintf("%s(actor%d)", e.K, e.A)
	case "rm":
		return fmt.Sprintf("removeByActor(actor%d)", e.A)
	}
	return e.K
}

type csRow struct {
	kind  byte // o = operation change (in the DB), p = presence-only put, c = presence-only clear
	actor int64
	live  bool // presence-only rows exist only in the in-memory presence store
}

type csModel struct {
	rows    []csRow        // index = seq-1
	cached  map[int64]bool // op seqs held by the op store
	covered map[int64]bool // seqs the op store has marked as fetched/known
}

func newCsModel() *csModel {
	return &csModel{cached: map[int64]bool{}, covered: map[int64]bool{}}
}

func (m *csModel) canon() string {
	var sb strings.Builder
	for i, r := range m.rows {
		sb.WriteByte(r.kind)
		sb.WriteByte(byte('0' + r.actor))
		if r.live {
			sb.WriteByte('+')
		} else {
			sb.WriteByte('-')
		}
		if m.cached[int64(i+1)] {
			sb.WriteByte('C')
		}
		if m.covered[int64(i+1)] {
			sb.WriteByte('R')
		}
		sb.WriteByte(' ')
	}
	return sb.String()
}

type csImpl struct {
	op, pr   *mongo.ChangeStore
	table    map[int64]*database.ChangeInfo // the "DB": operation changes only
	fetched  [][2]int64
	fetchErr string
}

func actorID(a int64) types.ID { return types.ID(fmt.Sprintf("00000000000000000000000%d", a)) }

func newCsImpl() *csImpl {
	return &csImpl{op: mongo.NewChangeStore(), pr: mongo.NewChangeStore(), table: map[int64]*database.ChangeInfo{}}
}

// apply performs the event on model and implementation; returns a disagreement.
func csApply(m *csModel, im *csImpl, e csEvent) string {
	n := int64(len(m.rows))
	switch e.K {
	case "pushop", "pushpr", "pushclr":
		seq := n + 1
		ci := &database.ChangeInfo{ServerSeq: seq, ActorID: actorID(e.A), ClientSeq: uint32(seq)}
		switch e.K {
		case "pushop":
			ci.Operations = [][]byte{{1}}
			m.rows = append(m.rows, csRow{'o', e.A, true})
			im.table[seq] = ci
			// mongo.Client.CreateChangeInfos step 04
			im.op.ReplaceOrInsert([]*database.ChangeInfo{ci})
			m.cached[seq] = true
		case "pushpr":
			ci.PresenceChange = &presence.Change{ChangeType: presence.Put, Presence: presence.Data{"k": "v"}}
			m.rows = append(m.rows, csRow{'p', e.A, true})
			im.pr.ReplaceOrInsert([]*database.ChangeInfo{ci})
		case "pushclr":
			ci.PresenceChange = &presence.Change{ChangeType: presence.Clear}
			m.rows = append(m.rows, csRow{'c', e.A, true})
			im.pr.ReplaceOrInsert([]*database.ChangeInfo{ci})
		}
		// ExpandRange is called for every push (also presence-only ones)
		im.op.ExpandRange(mongo.ChangeRange{From: n + 1, To: seq})
		m.covered[seq] = true
	case "rm":
		im.pr.RemoveChangesByActor(actorID(e.A))
		for i := range m.rows {
			if m.rows[i].kind == 'p' && m.rows[i].actor == e.A {
				m.rows[i].live = false
			}
		}
	case "evict":
		im.op = mongo.NewChangeStore()
		m.cached = map[int64]bool{}
		m.covered = map[int64]bool{}
	case "find":
		from, to := e.A, e.Bv
		// mongo.Client.FindChangeInfosBetweenServerSeqs
		store := mongo.NewChangeStore()
		store.ReplaceOrInsert(im.pr.ChangesInRange(from, to))
		var bad string
		err := im.op.EnsureChanges(from, to, func(f, t int64) ([]*database.ChangeInfo, error) {
			if f > t {
				bad = fmt.Sprintf("fetcher called with from %d > to %d", f, t)
			}
			for s := f; s <= t; s++ {
				if m.covered[s] {
					bad = fmt.Sprintf("fetcher asked for [%d,%d] although %d is already covered", f, t, s)
				}
				if s < from || s > to {
					bad = fmt.Sprintf("fetcher asked for [%d,%d] outside the requested [%d,%d]", f, t, from, to)
				}
			}
			var out []*database.ChangeInfo
			for s := f; s <= t; s++ {
				if ci, ok := im.table[s]; ok {
					out = append(out, ci)
					m.cached[s] = true
				}
				m.covered[s] = true
			}
			return out, nil
		})
		if err != nil {
			return "EnsureChanges: " + err.Error()
		}
		if bad != "" {
			return bad
		}
		store.ReplaceOrInsert(im.op.ChangesInRange(from, to))
		got := store.ChangesInRange(from, to)
		var want []int64
		for s := from; s <= to && s <= n; s++ {
			r := m.rows[s-1]
			if r.kind == 'o' || r.live {
				want = append(want, s)
			}
		}
		var gs []int64
		for _, g := range got {
			gs = append(gs, g.ServerSeq)
		}
		if fmt.Sprint(gs) != fmt.Sprint(want) {
			return fmt.Sprintf("find(%d,%d) returned seqs %v, the stores hold %v", from, to, gs, want)
		}
		for _, g := range got {
			r := m.rows[g.ServerSeq-1]
			if g.ActorID != actorID(r.actor) || (r.kind == 'o') != g.HasOperations() {
				return fmt.Sprintf("find(%d,%d) returned a different change at seq %d", from, to, g.ServerSeq)
			}
		}
	}
	return ""
}

func csEnabled(m *csModel, maxN int64) []csEvent {
	var out []csEvent
	n := int64(len(m.rows))
	if n < maxN {
		for a := int64(1); a <= 2; a++ {
			out = append(out, csEvent{K: "pushop", A: a}, csEvent{K: "pushpr", A: a})
		}
		out = append(out, csEvent{K: "pushclr", A: 1})
	}
	for f := int64(1); f <= n+1; f++ {
		for t := f; t <= n+1; t++ {
			out = append(out, csEvent{K: "find", A: f, Bv: t})
		}
	}
	out = append(out, csEvent{K: "rm", A: 1}, csEvent{K: "rm", A: 2}, csEvent{K: "evict"})
	return out
}

func csReplay(seq []csEvent) (*csModel, string) {
	m, im := newCsModel(), newCsImpl()
	for i, e := range seq {
		if d := csApply(m, im, e); d != "" {
			return m, fmt.Sprintf("step %d %s: %s", i, e, d)
		}
	}
	return m, ""
}

type c20case struct {
	Part string    `json:"part"`
	Seq  []csEvent `json:"seq,omitempty"`
	LRU  []lruOp   `json:"lru,omitempty"`
	Cap  int       `json:"cap,omitempty"`
	TTL  bool      `json:"ttl,omitempty"`
}

func seqString(seq []csEvent) string {
	var parts []string
	for _, e := range seq {
		parts = append(parts, e.String())
	}
	return strings.Join(parts, " ")
}

func c20ChangeStore(env *Env, res *Result) {
	maxN, maxDepth := int64(4), 7
	if env.Tier == "thorough" {
		maxN, maxDepth = 5, 9
	}
	seen := map[string]bool{newCsModel().canon(): true}
	frontier := [][]csEvent{nil}
	trans := 0
	for depth := 0; depth < maxDepth && len(frontier) > 0; depth++ {
		var next [][]csEvent
		for _, path := range frontier {
			if env.Expired() {
				res.Incomplete = append(res.Incomplete, fmt.Sprintf("c20/changestore/depth%d", depth))
				return
			}
			Progress.Add(1) // the watchdog must see the search move
			m, _ := csReplay(path)
			for _, e := range csEnabled(m, maxN) {
				np := append(append([]csEvent(nil), path...), e)
				trans++
				mine := trans%env.NShards == env.Shard
				m2, diff := csReplay(np)
				if mine {
					res.Evaluations++
					res.Transitions++
					if len(np) >= 3 {
						res.Nontrivial++
					}
					if diff != "" {
						raw, _ := json.Marshal(c20case{Part: "changestore", Seq: np})
						res.AddFound(Found{Property: "C20", Kind: "cache-not-transparent", Sig: "cache-not-transparent:changestore",
							Detail: diff + "\nsequence: " + seqString(np), Case: raw,
							Core: "cache-not-transparent|changestore|" + hist.NormErr(afterColon(diff))})
					}
					if len(res.Samples) < 2 && len(np) == 5 && trans%1999 == 0 {
						res.Sample(seqString(np))
					}
				}
				if diff != "" {
					continue
				}
				k := m2.canon()
				if !seen[k] {
					seen[k] = true
					next = append(next, np)
				}
			}
		}
		frontier = next
		if env.Shard == 0 {
			res.Notes = append(res.Notes, fmt.Sprintf("changestore BFS depth %d: %d states, frontier %d, %d transitions", depth+1, len(seen), len(frontier), trans))
		}
	}
	if env.Shard == 0 {
		res.States += len(seen)
		fix := "fixpoint"
		if len(frontier) > 0 {
			fix = fmt.Sprintf("depth-bound %d (frontier %d)", maxDepth, len(frontier))
		}
		res.Completed = append(res.Completed, fmt.Sprintf("c20/changestore/N<=%d/%s/%d-states", maxN, fix, len(seen)))
	}
}

// (c) pkg/cache wrappers against a plain map: a hit returns the value most
// recently added for that key; a miss is always allowed (eviction policy and
// shard placement are not the property).

type lruOp struct {
	K   string `json:"k"` // add get peek remove contains purge
	Key int    `json:"key"`
	Val int    `json:"val,omitempty"`
}

type lruIface interface {
	Get(int) (int, bool)
	Add(int, int) bool
	Contains(int) bool
	Peek(int) (int, bool)
	Remove(int) bool
	Purge()
	Len() int
}

func lruReplay(c lruIface, ops []lruOp) string {
	ref := map[int]int{}
	for i, op := range ops {
		switch op.K {
		case "add":
			c.Add(op.Key, op.Val)
			ref[op.Key] = op.Val
		case "get", "peek":
			var v int
			var ok bool
			if op.K == "get" {
				v, ok = c.Get(op.Key)
			} else {
				v, ok = c.Peek(op.Key)
			}
			want, has := ref[op.Key]
			if ok && (!has || v != want) {
				return fmt.Sprintf("step %d %s(%d) = %d, but the last value added is %v (present=%v)", i, op.K, op.Key, v, want, has)
			}
			if !ok {
				delete(ref, op.Key) // evicted: a miss is allowed, and it stays a miss until re-added
			}
		case "contains":
			ok := c.Contains(op.Key)
			if _, has := ref[op.Key]; ok && !has {
				return fmt.Sprintf("step %d contains(%d) = true for a key that was removed or never added", i, op.Key)
			}
			if !ok {
				delete(ref, op.Key)
			}
		case "remove":
			c.Remove(op.Key)
			delete(ref, op.Key)
		case "purge":
			c.Purge()
			ref = map[int]int{}
		}
		if c.Len() > len(ref) {
			return fmt.Sprintf("step %d: Len() = %d but at most %d keys can be present", i, c.Len(), len(ref))
		}
	}
	return ""
}

func c20LRU(env *Env, res *Result) {
	depth := 5
	if env.Tier == "thorough" {
		depth = 6
	}
	var alphabet []lruOp
	for k := 0; k < 3; k++ {
		alphabet = append(alphabet, lruOp{K: "add", Key: k}, lruOp{K: "get", Key: k}, lruOp{K: "peek", Key: k}, lruOp{K: "remove", Key: k}, lruOp{K: "contains", Key: k})
	}
	alphabet = append(alphabet, lruOp{K: "purge"})
	job := 0
	instances := map[string]lruIface{}
	var cur []lruOp
	var rec func()
	rec = func() {
		if env.Expired() {
			return
		}
		if len(cur) > 0 {
			job++
			if job%4096 == 0 {
				Progress.Add(1)
			}
			if job%env.NShards == env.Shard {
				for _, capv := range []int{1, 64} {
					for _, ttl := range []bool{false, true} {
						ops := make([]lruOp, len(cur))
						for i, o := range cur {
							o.Val = 100*i + o.Key
							ops[i] = o
						}
						// one instance per (capacity, kind), emptied with Purge before every
						// sequence: every expirable LRU starts a janitor goroutine that never
						// ends, so an instance per sequence leaks millions of them
						ck := fmt.Sprintf("%d/%v", capv, ttl)
						c := instances[ck]
						if c == nil {
							if ttl {
								x, err := cache.NewLRUWithExpires[int, int](capv, time.Hour, "c20")
								if err != nil {
									continue
								}
								c = x
							} else {
								x, err := cache.NewLRU[int, int](capv, "c20")
								if err != nil {
									continue
								}
								c = x
							}
							instances[ck] = c
						}
						c.Purge()
						diff := lruReplay(c, ops)
						res.Evaluations++
						if len(ops) >= 3 {
							res.Nontrivial++
						}
						if diff != "" {
							raw, _ := json.Marshal(c20case{Part: "lru", LRU: ops, Cap: capv, TTL: ttl})
							res.AddFound(Found{Property: "C20", Kind: "cache-not-transparent", Sig: "cache-not-transparent:lru", Detail: diff, Case: raw,
								Core: fmt.Sprintf("cache-not-transparent|lru|ttl=%v|%s", ttl, hist.NormErr(afterColon(diff)))})
						}
					}
				}
			}
		}
		if len(cur) == depth {
			return
		}
		for _, a := range alphabet {
			cur = append(cur, a)
			rec()
			cur = cur[:len(cur)-1]
		}
	}
	rec()
	if env.Expired() {
		res.Incomplete = append(res.Incomplete, "c20/lru")
	} else if env.Shard == 0 {
		res.Completed = append(res.Completed, fmt.Sprintf("c20/lru/len<=%d", depth))
	}
}

// (b) snapshot cache: the same histories with the cache purged before every
// request (no reuse) must give the same replicas and the same rebuild at every serverSeq.
var c20HSpec = &HSpec{ID: "C20",
	Scenarios: func(tier string) []*hist.Scenario {
		var out []*hist.Scenario
		add := func(f family, op string, y int, ti [2]int64) {
			out = append(out, &hist.Scenario{Name: fmt.Sprintf("c20/snapcache/%s/%s/snap%d-%d/N1L1K2Y%dE1", f.name, op, ti[0], ti[1], y),
				N: 1, Late: 1, Init: f.init, Alphabet: []string{op}, K: 2, Y: y, Env: []string{"evict"}, E: 1,
				Cfg: hist.Config{Threshold: ti[0], Interval: ti[1]}})
		}
		// N1L1K2Y2E1 is 2.1k histories per kind, N1L1K2Y3E1 9.0k; every history runs twice (two variants)
		for _, f := range coreFamilies() {
			for i, op := range f.ops {
				if tier == "quick" && i%3 != 0 {
					continue
				}
				add(f, op, 2, [2]int64{1, 1})
				if tier == "thorough" || i == 0 {
					add(f, op, 2, [2]int64{2, 2})
				}
			}
		}
		if tier == "thorough" {
			for _, f := range coreFamilies() {
				for i, op := range f.ops {
					if i%3 == 0 {
						add(f, op, 3, [2]int64{1, 1})
						add(f, op, 3, [2]int64{2, 2})
					}
				}
			}
		}
		return out
	},
	Eval: func(r *hist.Runner, sc *hist.Scenario, h []hist.Event, res *Result) ([]hist.Violation, bool) {
		// Variant 1: the cache evolves only through the requests of the history;
		// at the end every serverSeq is rebuilt warm-ascending, cold and
		// warm-descending and compared with a one-by-one replay of the stored log.
		// Variant 2: after EVERY event the head and head-1 are rebuilt through the
		// cache as it is at that moment (the entry is then newer than head-1) and
		// compared with the replay.
		var all []hist.Violation
		for variant := 0; variant < 2; variant++ {
			if variant == 1 {
				r.AfterEvent = []func(x *hist.Exec, i int){c20Probe}
			}
			x := r.Run(sc, sc.Cfg, h)
			r.AfterEvent = nil
			if n := len(x.Steps); n > 0 && x.Steps[n-1].NoEffect {
				x.Close()
				return nil, true
			}
			x.Quiesce()
			var viol []hist.Violation
			for _, v := range x.Viol {
				if v.Kind == "cache-not-transparent" || v.Kind == "server-rebuild-error" || v.Kind == "log-replay-error" || v.Kind == "harness" {
					viol = append(viol, v)
				}
			}
			if len(viol) == 0 && !x.Aborted {
				n0 := len(x.Viol)
				rebuildAllSeqs(x)
				for _, v := range x.Viol[n0:] {
					if v.Kind == "diverge" {
						v.Kind, v.Sig = "cache-not-transparent", "cache-not-transparent:"+v.Sig
					}
					viol = append(viol, v)
				}
			}
			if res != nil && variant == 0 {
				res.Count("snapshots_pulled", x.SnapshotsPulled)
				if len(x.Reps) > 0 {
					res.Outcome(sc.Init[0] + "|" + x.Reps[0].Doc.Marshal())
				}
			}
			x.Close()
			all = append(all, viol...)
			if len(viol) > 0 {
				break
			}
		}
		return all, false
	},
}

func c20Probe(x *hist.Exec, i int) {
	di, err := x.DocInfo()
	if err != nil || di.ServerSeq < 1 {
		return
	}
	for _, s := range []int64{di.ServerSeq, di.ServerSeq - 1} {
		if s < 1 {
			continue
		}
		got, e1 := x.ServerMarshal(s)
		want, e2 := replayLog(x, s)
		if e1 != nil || e2 != nil {
			x.Viol = append(x.Viol, hist.Violation{Kind: "server-rebuild-error", Sig: "server-rebuild-error:" + hist.NormErr(fmt.Sprint(e1, e2)),
				Detail: fmt.Sprintf("after event %d serverSeq %d: %v / %v", i, s, e1, e2)})
			return
		}
		if got != want {
			x.Viol = append(x.Viol, hist.Violation{Kind: "cache-not-transparent", Sig: "cache-not-transparent:snapshot-cache",
				Detail: fmt.Sprintf("after event %d, serverSeq %d (head %d)\nthrough the cache: %s\nlog replay:        %s", i, s, di.ServerSeq, got, want)})
			return
		}
	}
}

func c20Run(env *Env) *Result {
	res := NewResult()
	c20ChangeStore(env, res)
	c20LRU(env, res)
	r2 := RunH(c20HSpec, env)
	r2.Evaluations, res.Evaluations = 0, res.Evaluations+r2.Evaluations
	r2.Nontrivial, res.Nontrivial = 0, res.Nontrivial+r2.Nontrivial
	res.Merge(r2)
	return res
}

func init() {
	register(&Check{
		ID:    "C20",
		Level: "model_checking",
		Rule: "(a) mongo.ChangeStore composed as mongo.Client composes it (operation store + presence store, push path = ReplaceOrInsert+ExpandRange, read path = EnsureChanges with a fetcher over a ground-truth table + ChangesInRange, " +
			"RemoveChangesByActor on detach, eviction of the operation store): breadth-first search over ALL event sequences (pushes of operation/presence-put/presence-clear changes by 2 actors, find(f,t) for every f<=t<=N+1, removeByActor, evict) " +
			"with N<=4 changes (thorough 5), de-duplicated on the canonical state (row kinds, liveness, cached seqs, covered seqs); oracle at every find: result == the rows the stores hold, in order, the fetcher is never asked for a covered or out-of-range seq; " +
			"(b) snapshot cache: every normal-form history (late attacher, eviction at any position, thresholds 1 and 2), once with the cache evolving only through the history's requests (then every serverSeq rebuilt warm-ascending, cold, warm-descending) and once probing head and head-1 through the cache after EVERY event (cached entry newer than requested): every rebuild equals a one-by-one replay of the stored log; " +
			"(c) pkg/cache LRU and LRUWithExpires: ALL sequences of length <=5 (thorough 6) of Add/Get/Peek/Remove/Contains/Purge over 3 keys, capacities 1-per-shard and ample, against a plain map (a hit returns the last value added; a miss is always allowed); " +
			"states = canonical change-store states, transitions = executed (path,event) pairs",
		Assume: []string{"the glue inside mongo/client.go cannot run without MongoDB: its ChangeStore call pattern is reproduced by the harness", "TTL expiry is owned by a third-party janitor goroutine on the real clock and is not explored (TTL set to 1h)",
			"ChangeStore.ranges is unexported: disjointness of merged ranges is observed only through fetcher calls"},
		QuickBudget: 300 * time.Second,
		Run:         c20Run,
		Reproduce: func(f *Found) (bool, error) {
			if f.Hist != nil {
				return ReproduceH(c20HSpec)(f)
			}
			var c c20case
			if err := json.Unmarshal(f.Case, &c); err != nil {
				return false, err
			}
			if c.Part == "changestore" {
				_, diff := csReplay(c.Seq)
				return diff != "", nil
			}
			var cc lruIface
			if c.TTL {
				x, _ := cache.NewLRUWithExpires[int, int](c.Cap, time.Hour, "c20")
				cc = x
			} else {
				x, _ := cache.NewLRU[int, int](c.Cap, "c20")
				cc = x
			}
			return lruReplay(cc, c.LRU) != "", nil
		},
		Minimise: func(f *Found) *Found {
			if f.Hist != nil {
				return MinimiseH(c20HSpec)(f)
			}
			return f
		},
	})
	_ = sort.Ints
}
