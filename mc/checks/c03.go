package checks

import (
	"fmt"
	"strings"
	"time"

	"verifmc/hist"
)

// Garbage-producing and garbage-referencing kinds per data type.
var (
	gcObj  = []string{"o.set1", "o.del1", "o.setobj1", "o.setin1", "o.setarr1", "o.pushin1", "o.delroot", "o.newroot"}
	gcArr  = []string{"a.push", "a.insL", "a.ins0", "a.del0", "a.delL", "a.mv0L", "a.mvL0", "a.mvFrontL", "a.mvLast0", "a.mvBef0L", "a.mvBefL0", "a.set0", "a.setL", "a.pushobj", "a.setinL"}
	gcTxt  = []string{"t.ins0", "t.insM", "t.insE", "t.delF", "t.delM", "t.delB", "t.delAll", "t.repM", "t.styF", "t.styB", "t.insAttrM"}
	gcTree = []string{"tr.insT0", "tr.insT1", "tr.insTE", "tr.delT0", "tr.delTAll0", "tr.insP0", "tr.insPE", "tr.delP0", "tr.delPL", "tr.repP0", "tr.sty0", "tr.rmsty0"}
)

var (
	gcObjCore  = []string{"o.set1", "o.del1", "o.setobj1", "o.setin1", "o.setarr1", "o.pushin1", "o.delroot"}
	gcArrCore  = []string{"a.push", "a.insL", "a.delL", "a.del0", "a.mv0L", "a.mvLast0", "a.mvFrontL", "a.mvBefL0", "a.setL", "a.setinL", "a.pushobj"}
	gcTxtCore  = []string{"t.ins0", "t.insE", "t.delF", "t.delB", "t.repM", "t.styF", "t.insAttrM"}
	gcTreeCore = []string{"tr.insT0", "tr.insT1", "tr.delT0", "tr.insP0", "tr.delP0", "tr.repP0", "tr.sty0", "tr.rmsty0"}
)

func c03Scenarios(tier string) []*hist.Scenario {
	var out []*hist.Scenario
	fams := []family{
		{"obj", []string{"init.o"}, gcObj},
		{"arr", []string{"init.a"}, gcArr},
		{"txt", []string{"init.t"}, gcTxt},
		{"tree", []string{"init.tr"}, gcTree},
	}
	core := []family{
		{"obj", []string{"init.o"}, gcObjCore},
		{"arr", []string{"init.a"}, gcArrCore},
		{"txt", []string{"init.t"}, gcTxtCore},
		{"tree", []string{"init.tr"}, gcTreeCore},
	}
	add := func(fam string, init, al []string, n, late, k, y int, ti [2]int64) {
		tag := ""
		if ti[0] != hist.Big {
			tag = fmt.Sprintf("/snap%d-%d", ti[0], ti[1])
		}
		out = append(out, &hist.Scenario{
			Name: fmt.Sprintf("c03/%s/%s%s/N%dL%dK%dY%d", fam, strings.Join(al, "+"), tag, n, late, k, y),
			N:    n, Late: late, Init: init, Alphabet: al, K: k, Y: y,
			Cfg: hist.Config{Threshold: ti[0], Interval: ti[1]},
		})
	}
	never := [2]int64{hist.Big, hist.Big}
	// Smallest shapes first (histories in normal form before no-effect pruning,
	// `vcheck countshape`): N2K2Y3 0.25k (pair of kinds 0.84k), N1L1K2Y2 0.4k,
	// N2K2Y4 0.7k (pair 2.4k), N1L1K2Y3 1.5k (pair 5.0k), N3K3Y4 3.9k, N2K3Y4 pair
	// 12.6k, N2K3Y6 16k. Every history runs twice (GC on / GC off twin).
	// client GC: a peer can sync twice (minVV advance) while the other holds unsent edits
	for _, f := range core {
		for _, al := range pairs(f.ops) {
			add(f.name, f.init, al, 2, 0, 2, 3, never)
		}
	}
	// server GC before snapshots
	for _, f := range core {
		for _, op := range f.ops {
			add(f.name, f.init, []string{op}, 1, 1, 2, 2, [2]int64{1, 1})
		}
	}
	// deeper sync budget on single kinds
	for _, f := range core {
		for _, op := range f.ops {
			add(f.name, f.init, []string{op}, 2, 0, 2, 4, never)
		}
	}
	// content inserted into an element that a peer concurrently removes, and a
	// follow-up edit of the inserter anchored on its own insert (made before it
	// learns of the removal): the born-dead node must outlive that edit. One
	// client removes, the other inserts twice, both role assignments, K3 Y3
	// (1.9k histories each). Found by a sub-agent while it looked for a C03 seed
	// (the tree defect repaired in /repo): triples of kinds were not in the quick tier.
	for _, del := range []string{"tr.delP0", "tr.repP0"} {
		for swap := 0; swap < 2; swap++ {
			pc := [][]string{{del}, {"tr.insT1", "tr.insT2"}}
			if swap == 1 {
				pc[0], pc[1] = pc[1], pc[0]
			}
			out = append(out, &hist.Scenario{
				Name: fmt.Sprintf("c03/tree/removed-parent/%s/swap%d/N2K3Y3", del, swap),
				N:    2, Init: []string{"init.tr"}, Alphabet: []string{del, "tr.insT1", "tr.insT2"}, PerClient: pc, K: 3, Y: 3,
				Cfg: hist.Config{Threshold: hist.Big, Interval: hist.Big},
			})
		}
	}
	// garbage made and referenced inside ONE change (one Update, two calls):
	// set + delete of a key, set + set, add + remove of an element, a container
	// created and filled; single kinds and pairs with a plain edit of the same type
	for _, al := range [][]string{{"m.o1+del1"}, {"m.o1+o1"}, {"m.a+del"}, {"m.obj+in"}, {"m.o1+del1", "o.set1"}, {"m.o1+o1", "o.del1"}, {"m.a+del", "a.ins0"}, {"m.obj+in", "o.del1"}} {
		out = append(out, &hist.Scenario{
			Name: fmt.Sprintf("c03/multi/%s/N2K2Y3", strings.Join(al, "+")),
			N:    2, Init: []string{"init.o", "init.a"}, Alphabet: al, K: 2, Y: 3, Cfg: hist.Config{Threshold: hist.Big, Interval: hist.Big},
		})
	}
	// a replica that already applied a removal as a change and is then caught
	// up by a snapshot (threshold 2: it falls three changes behind), while a
	// third client still holds an unsent edit anchored inside the removed
	// content: client 0 removes and writes on, client 1 only reads, client 2
	// inserts once (seeded change C03-4: a collection pass after the snapshot)
	for _, tr := range []struct {
		fam           string
		init          []string
		rm, bump, ins string
	}{
		{"txt", []string{"init.t"}, "t.delM", "t.ins0", "t.insM"},
		{"tree", []string{"init.tr"}, "tr.delP0", "tr.insTE", "tr.insT1"},
		{"arr", []string{"init.a"}, "a.delM", "a.push", "a.ins1"},
	} {
		out = append(out, &hist.Scenario{
			Name: fmt.Sprintf("c03/%s/snapshot-fed-reader/%s+%s|%s/snap2-2/N3K4Y4", tr.fam, tr.rm, tr.bump, tr.ins),
			N:    3, Init: tr.init, Alphabet: []string{tr.rm, tr.bump, tr.ins}, PerClient: [][]string{{tr.rm, tr.bump}, {}, {tr.ins}},
			K: 4, Y: 4, EditCaps: []int{3, 0, 1}, SyncCaps: []int{2, 2, 0}, Cfg: hist.Config{Threshold: 2, Interval: 2},
		})
	}
	if tier == "quick" {
		return out
	}
	inCore := map[string]bool{}
	for _, f := range core {
		for _, op := range f.ops {
			inCore[op] = true
		}
	}
	for _, f := range fams {
		for _, op := range f.ops {
			if !inCore[op] {
				add(f.name, f.init, []string{op}, 2, 0, 2, 4, never)
			}
		}
	}
	for _, f := range core {
		for _, op := range f.ops {
			for _, ti := range [][2]int64{{1, 1}, {2, 2}} {
				add(f.name, f.init, []string{op}, 1, 1, 2, 3, ti)
			}
		}
	}
	for _, f := range fams {
		for _, al := range pairs(f.ops) {
			if len(al) == 2 && !(inCore[al[0]] && inCore[al[1]]) {
				add(f.name, f.init, al, 2, 0, 2, 3, never)
			}
		}
	}
	for _, f := range core {
		for _, op := range f.ops {
			add(f.name, f.init, []string{op}, 3, 0, 3, 4, never)
		}
	}
	for _, f := range core {
		for _, al := range pairs(f.ops) {
			if len(al) == 2 {
				add(f.name, f.init, al, 2, 0, 2, 4, never)
			}
		}
	}
	for _, f := range core {
		for _, al := range pairs(f.ops[:4]) {
			if len(al) == 2 {
				add(f.name, f.init, al, 1, 1, 2, 3, [2]int64{1, 1})
			}
		}
	}
	for _, f := range core {
		for _, op := range f.ops[:4] {
			add(f.name, f.init, []string{op}, 2, 0, 3, 6, never)
		}
	}
	return out
}

// twinEval runs h under cfgA and cfgB and compares final contents.
func twinEval(r *hist.Runner, sc *hist.Scenario, h []hist.Event, cfgA, cfgB hist.Config, label string,
	res *Result, extra func(a, b *hist.Exec)) ([]hist.Violation, bool) {
	a := r.Run(sc, cfgA, h)
	defer a.Close()
	if n := len(a.Steps); n > 0 && a.Steps[n-1].NoEffect {
		return nil, true
	}
	a.Quiesce()
	convergenceOracle(a)
	b := r.Run(sc, cfgB, h)
	defer b.Close()
	b.Quiesce()
	convergenceOracle(b)
	var viol []hist.Violation
	viol = append(viol, a.Viol...)
	for _, v := range b.Viol {
		v.Kind = "twin-" + v.Kind
		v.Sig = "twin-" + v.Sig
		viol = append(viol, v)
	}
	if len(viol) == 0 && a.Quiesced && b.Quiesced {
		ra, rb := a.AttachedReps(), b.AttachedReps()
		if len(ra) != len(rb) {
			viol = append(viol, hist.Violation{Kind: "twin-diverge", Sig: "twin-diverge:" + label + ":attached", Detail: fmt.Sprintf("%d vs %d attached replicas", len(ra), len(rb))})
		} else {
			for i := range ra {
				if ma, mb := ra[i].Doc.Marshal(), rb[i].Doc.Marshal(); ma != mb {
					viol = append(viol, hist.Violation{Kind: "twin-diverge", Sig: "twin-diverge:" + label,
						Detail: fmt.Sprintf("client %d\n%s on:  %s\n%s off: %s", ra[i].Role, label, ma, label, mb)})
					break
				}
			}
		}
		if extra != nil && len(viol) == 0 {
			extra(a, b)
			viol = append(viol, a.Viol...)
		}
	}
	if res != nil {
		if len(a.Reps) > 0 && len(viol) == 0 {
			res.Outcome(sc.Init[0] + "|" + a.Reps[0].Doc.Marshal())
		}
		for _, rep := range a.Reps {
			if rep.Doc.GarbageLen() > 0 {
				res.Count("final_garbage_nonzero", 1)
				break
			}
		}
		res.Count("gc_purged_nodes", a.Purged)
		if a.Purged > 0 {
			res.Count("executions_with_gc", 1)
		}
		res.Count("snapshots_pulled", a.SnapshotsPulled)
		if a.SnapshotsPulled > 0 {
			res.Count("executions_with_snapshot_pull", 1)
		}
	}
	return viol, false
}

func c03Eval(r *hist.Runner, sc *hist.Scenario, h []hist.Event, res *Result) ([]hist.Violation, bool) {
	on := sc.Cfg
	off := sc.Cfg
	off.NoGC = true
	return twinEval(r, sc, h, on, off, "gc", res, nil)
}

func init() {
	spec := &HSpec{ID: "C03", Scenarios: c03Scenarios, Eval: c03Eval}
	defer func() {
		// the single-replica program part (c03_prog.go) runs first: it is cheap
		c := Registry["C03"]
		runH, reproH, minH := c.Run, c.Reproduce, c.Minimise
		c.Run = func(env *Env) *Result {
			res := NewResult()
			c03Programs(env, res)
			res.Merge(runH(env))
			return res
		}
		c.Reproduce = func(f *Found) (bool, error) {
			if f.Hist == nil && f.Case != nil {
				return c03ReproduceProgram(f)
			}
			return reproH(f)
		}
		c.Minimise = func(f *Found) *Found {
			if f.Hist == nil {
				return f
			}
			return minH(f)
		}
	}()
	registerH(spec, &Check{
		Level: "exploration",
		Rule: "every normal-form history of <=K edits and <=Y syncs over garbage-producing/-referencing edit kinds (pairs per data type), " +
			"executed twice on the real implementation: GC on (client GC on pulls, server GC before snapshots) and GC off " +
			"(document.WithDisableGC on every replica + SnapshotDisableGC); oracle: no sync/rebuild error in either world, replicas converge, " +
			"content(GC on)==content(GC off); non-trivial = two concurrent edits by different clients; " +
			"plus, on a single replica: ALL programs of <=4 (thorough 5) steps over every editing call kind x position class of a data type (the C07 templates) and garbage collections with the document's own vector between them, " +
			"run on two real documents (with / without the collections): a call fails in one iff in the other, content equal after every step, index/path view agrees with the reference model in one iff in the other, Root()==Marshal(), GarbageLen()==0 after a collection",
		Assume:      []string{"memdb backend", "small-scope bounds as listed per scenario name", "map iteration order uncontrolled; violations re-run 5x"},
		QuickBudget: 420 * time.Second,
	})
}
