package checks

import (
	"bytes"
	"context"
	"encoding/binary"
	"encoding/json"
	"fmt"
	"io"
	"net/http"
	"regexp"
	"sort"
	"strings"
	"time"

	"google.golang.org/protobuf/proto"
	"google.golang.org/protobuf/reflect/protoreflect"
	"google.golang.org/protobuf/types/dynamicpb"

	"github.com/yorkie-team/yorkie/api/converter"
	"github.com/yorkie-team/yorkie/api/types"
	api "github.com/yorkie-team/yorkie/api/yorkie/v1"
	"github.com/yorkie-team/yorkie/client"
	"github.com/yorkie-team/yorkie/pkg/document"
	yjson "github.com/yorkie-team/yorkie/pkg/document/json"
	"github.com/yorkie-team/yorkie/pkg/key"
	"github.com/yorkie-team/yorkie/server/backend/database"
	"github.com/yorkie-team/yorkie/server/users"

	"verifmc/hist"
	"verifmc/world"
)

// C13: project isolation and credentials, as the complete finite matrix
// procedure x credential x {own, foreign} ids. Procedures come from the
// generated service descriptors.

const c13Marker = "VICTIMSECRETCONTENT"
const c13ClusterSecret = "c13-cluster-secret"

type c13side struct {
	user     *types.User
	token    string
	project  *types.Project
	clientID string
	docID    string
	docKey   string
	cli      *client.Client
	doc      *document.Document
	// a stored revision of the document and a live channel session of the client
	revisionID string
	sessionID  string
}

type c13world struct {
	w        *world.World
	att, vic c13side
}

func c13Setup(useDefault bool) (*c13world, error) {
	w, err := world.New(world.Options{UseDefaultProject: useDefault, ClusterSecret: c13ClusterSecret})
	if err != nil {
		return nil, err
	}
	cw := &c13world{w: w}
	ctx := context.Background()
	for i, s := range []*c13side{&cw.att, &cw.vic} {
		name := []string{"attacker", "victimuser"}[i]
		u, err := users.SignUp(ctx, w.BE, name, "Passw0rd!"+name)
		if err != nil {
			return nil, err
		}
		s.user = u
		info, err := w.BE.DB.CreateProjectInfo(ctx, name+"-proj", u.ID)
		if err != nil {
			return nil, err
		}
		s.project = info.ToProject()
		s.docKey = "shared-doc-key" // the same key in both projects names two documents
		cli, err := w.Dial(s.project, client.WithSyncLoopDuration(24*time.Hour))
		if err != nil {
			return nil, err
		}
		if err := cli.Activate(ctx); err != nil {
			return nil, err
		}
		d := document.New(key.Key(s.docKey))
		go func() {
			for range d.Events() {
			}
		}()
		if err := cli.Attach(ctx, d); err != nil {
			return nil, err
		}
		content := "attackercontent"
		if i == 1 {
			content = c13Marker
		}
		_ = d.Update(func(r *yjson.Object, p *document.Presence) error { r.SetString("secret", content); return nil })
		if err := cli.Sync(ctx); err != nil {
			return nil, err
		}
		s.cli, s.doc = cli, d
		s.clientID = cli.ID().String()
		di, err := w.BE.DB.FindDocInfoByKey(ctx, s.project.ID, key.Key(s.docKey))
		if err != nil {
			return nil, err
		}
		s.docID = di.ID.String()
		// admin token
		code, _, body := c13call(w, "/yorkie.v1.AdminService/LogIn", false, mustMarshal(&api.LogInRequest{Username: name, Password: "Passw0rd!" + name}), nil)
		if code != "ok" {
			return nil, fmt.Errorf("login %s: %s", name, code)
		}
		var lr api.LogInResponse
		if err := proto.Unmarshal(body, &lr); err != nil {
			return nil, err
		}
		s.token = lr.Token
		if err := cw.makeRevisionAndSession(s); err != nil {
			return nil, err
		}
	}
	w.WaitBackground()
	return cw, nil
}

const c13Channel = "room-1"

// makeRevisionAndSession gives the side a stored revision of its document and
// a live channel session of its client, through the public RPCs.
func (cw *c13world) makeRevisionAndSession(s *c13side) error {
	hdr := map[string]string{"x-api-key": s.project.PublicKey, "Authorization": s.project.PublicKey}
	if s.revisionID == "" {
		code, emsg, body := c13call(cw.w, "/yorkie.v1.YorkieService/CreateRevision", false,
			mustMarshal(&api.CreateRevisionRequest{ClientId: s.clientID, DocumentId: s.docID, Label: "rev-" + s.docKey}), hdr)
		if code != "ok" {
			return fmt.Errorf("create revision: %s %s", code, emsg)
		}
		var r api.CreateRevisionResponse
		if err := proto.Unmarshal(body, &r); err != nil {
			return err
		}
		s.revisionID = r.Revision.Id
	}
	code, emsg, body := c13call(cw.w, "/yorkie.v1.YorkieService/AttachChannel", false,
		mustMarshal(&api.AttachChannelRequest{ClientId: s.clientID, ChannelKey: c13Channel}), hdr)
	if code != "ok" {
		return fmt.Errorf("attach channel: %s %s", code, emsg)
	}
	var r api.AttachChannelResponse
	if err := proto.Unmarshal(body, &r); err != nil {
		return err
	}
	s.sessionID = r.SessionId
	return nil
}

// victimSessions is the part of the victim's state that lives outside the
// database: the sessions of its channel.
func (cw *c13world) victimSessions() int64 {
	return cw.w.BE.Channel.SessionCount(types.ChannelRefKey{ProjectID: cw.vic.project.ID, ChannelKey: key.Key(c13Channel)}, false)
}

func (cw *c13world) refreshAttacker() {
	ctx := context.Background()
	s := &cw.att
	cli, err := cw.w.Dial(s.project, client.WithSyncLoopDuration(24*time.Hour))
	if err != nil {
		return
	}
	if err := cli.Activate(ctx); err != nil {
		return
	}
	d := document.New(key.Key(s.docKey))
	go func() {
		for range d.Events() {
		}
	}()
	if err := cli.Attach(ctx, d); err != nil {
		return
	}
	s.cli, s.doc, s.clientID = cli, d, cli.ID().String()
	if di, err := cw.w.BE.DB.FindDocInfoByKey(ctx, s.project.ID, key.Key(s.docKey)); err == nil && di != nil {
		if s.docID != di.ID.String() {
			s.revisionID = "" // the document was removed and re-created: its revisions went with it
		}
		s.docID = di.ID.String()
	}
	_ = cw.makeRevisionAndSession(s)
	cw.w.WaitBackground()
}

func mustMarshal(m proto.Message) []byte {
	b, err := proto.Marshal(m)
	if err != nil {
		panic(err)
	}
	return b
}

var reCode = regexp.MustCompile(`"code"\s*:\s*"([a-z_]+)"`)
var reMsg = regexp.MustCompile(`"message"\s*:\s*"((?:[^"\\]|\\.)*)"`)

// c13call performs one raw Connect call in-process. It returns the connect
// code ("ok" on success), the error message and the raw body.
func c13call(w *world.World, path string, streaming bool, body []byte, hdr map[string]string) (string, string, []byte) {
	ctx, cancel := context.WithTimeout(context.Background(), 1500*time.Millisecond)
	defer cancel()
	ct := "application/proto"
	if streaming {
		ct = "application/connect+proto"
		env := make([]byte, 5+len(body))
		binary.BigEndian.PutUint32(env[1:5], uint32(len(body)))
		copy(env[5:], body)
		body = env
	}
	req, _ := http.NewRequestWithContext(ctx, http.MethodPost, world.Addr+path, bytes.NewReader(body))
	req.Header.Set("Content-Type", ct)
	req.Header.Set("Connect-Protocol-Version", "1")
	for k, v := range hdr {
		req.Header.Set(k, v)
	}
	res, err := w.Transport.RoundTrip(req)
	if err != nil {
		return "transport:" + err.Error(), "", nil
	}
	rb, _ := io.ReadAll(res.Body)
	if !streaming {
		if res.StatusCode == 200 {
			return "ok", "", rb
		}
		code, msg := "http"+fmt.Sprint(res.StatusCode), ""
		if m := reCode.FindSubmatch(rb); m != nil {
			code = string(m[1])
		}
		if m := reMsg.FindSubmatch(rb); m != nil {
			msg = string(m[1])
		}
		return code, msg, rb
	}
	// streaming: the error (if any) is in the end-of-stream envelope
	if res.StatusCode != 200 {
		return "http" + fmt.Sprint(res.StatusCode), "", rb
	}
	if m := reCode.FindSubmatch(rb); m != nil {
		msg := ""
		if mm := reMsg.FindSubmatch(rb); mm != nil {
			msg = string(mm[1])
		}
		return string(m[1]), msg, rb
	}
	return "ok", "", rb
}

// victimDump serialises every stored row that belongs to the victim project.
func (cw *c13world) victimDump() string {
	pid := cw.vic.project.ID
	dump := cw.w.MemDB.DumpForVerif()
	var names []string
	for n := range dump {
		names = append(names, n)
	}
	sort.Strings(names)
	var sb strings.Builder
	for _, n := range names {
		for _, raw := range dump[n] {
			keep := false
			switch r := raw.(type) {
			case *database.ClientInfo:
				keep = r.ProjectID == pid
			case *database.DocInfo:
				keep = r.ProjectID == pid
			case *database.ChangeInfo:
				keep = r.ProjectID == pid
			case *database.SnapshotInfo:
				keep = r.ProjectID == pid
			case *database.VersionVectorInfo:
				keep = r.ProjectID == pid
			case *database.ProjectInfo:
				keep = r.ID == pid
			case *database.SchemaInfo:
				keep = r.ProjectID == pid
			case *database.RevisionInfo:
				keep = r.ProjectID == pid
			case *database.MemberInfo:
				keep = r.ProjectID == pid
			case *database.InviteInfo:
				keep = r.ProjectID == pid
			case *database.UserInfo:
				keep = r.ID == cw.vic.user.ID
			}
			if keep {
				b, _ := json.Marshal(raw)
				sb.WriteString(n)
				sb.WriteByte(':')
				sb.Write(b)
				sb.WriteByte('\n')
			}
		}
	}
	return sb.String()
}

// idField classifies a request field by name: which id space it names.
// kind "" = not an id/credential-relevant field.
func c13FieldKind(fd protoreflect.FieldDescriptor, parent string) string {
	n := string(fd.Name())
	switch n {
	case "client_id":
		return "client"
	case "document_id":
		return "docid"
	case "document_key":
		return "dockey"
	case "document_keys":
		return "dockeys"
	case "channel_key":
		return "chankey"
	case "channel_keys":
		return "chankeys"
	case "project_id":
		return "projectid"
	case "project_name":
		return "projectname"
	case "revision_id":
		return "revision"
	case "username":
		return "username"
	case "session_id":
		return "session"
	case "id":
		if strings.Contains(parent, "UpdateProject") || strings.Contains(parent, "RotateProjectKeys") {
			return "projectid"
		}
	case "name":
		if strings.Contains(parent, "GetProject") {
			return "projectname"
		}
	}
	return ""
}

const c13Nonexistent = "0123456789abcdef01234567"

// c13Fill builds the request. assign maps field kind -> "own" | "foreign" | "nonexistent".
func (cw *c13world) fill(md protoreflect.MessageDescriptor, assign map[string]string) (proto.Message, []string, error) {
	msg := dynamicpb.NewMessage(md)
	var kinds []string
	side := func(kind string) *c13side {
		if assign[kind] == "foreign" {
			return &cw.vic
		}
		return &cw.att
	}
	var unknown []string
	fields := md.Fields()
	for i := 0; i < fields.Len(); i++ {
		fd := fields.Get(i)
		kind := c13FieldKind(fd, string(md.Name()))
		if kind != "" {
			kinds = append(kinds, kind)
		}
		s := side(kind)
		nonex := assign[kind] == "nonexistent"
		str := func(own string) protoreflect.Value {
			if nonex {
				return protoreflect.ValueOfString(c13Nonexistent)
			}
			return protoreflect.ValueOfString(own)
		}
		switch kind {
		case "client":
			msg.Set(fd, str(s.clientID))
		case "docid":
			msg.Set(fd, str(s.docID))
		case "dockey":
			msg.Set(fd, protoreflect.ValueOfString(s.docKey))
		case "dockeys":
			msg.Mutable(fd).List().Append(protoreflect.ValueOfString(s.docKey))
		case "chankey":
			msg.Set(fd, protoreflect.ValueOfString(c13Channel))
		case "chankeys":
			msg.Mutable(fd).List().Append(protoreflect.ValueOfString(c13Channel))
		case "projectid":
			msg.Set(fd, str(s.project.ID.String()))
		case "projectname":
			if nonex {
				msg.Set(fd, protoreflect.ValueOfString("no-such-project"))
			} else {
				msg.Set(fd, protoreflect.ValueOfString(s.project.Name))
			}
		case "revision":
			msg.Set(fd, str(s.revisionID))
		case "username":
			if nonex {
				msg.Set(fd, protoreflect.ValueOfString("nosuchuser"))
			} else {
				msg.Set(fd, protoreflect.ValueOfString(s.user.Username))
			}
		case "session":
			msg.Set(fd, str(s.sessionID))
		default:
			// non-id fields: change packs carry a document key; others get benign values
			switch {
			case fd.Name() == "change_pack":
				ds := side("dockey")
				if _, ok := assign["dockey"]; !ok {
					ds = side("docid")
				}
				d := document.New(key.Key(ds.docKey))
				pack := d.CreateChangePack()
				pb, err := converter.ToChangePack(pack)
				if err != nil {
					return nil, nil, err
				}
				raw, _ := proto.Marshal(pb)
				sub := dynamicpb.NewMessage(fd.Message())
				if err := proto.Unmarshal(raw, sub); err != nil {
					return nil, nil, err
				}
				msg.Set(fd, protoreflect.ValueOfMessage(sub))
			case fd.Kind() == protoreflect.StringKind && !fd.IsList():
				switch fd.Name() {
				case "password", "current_password", "new_password":
					msg.Set(fd, protoreflect.ValueOfString("Passw0rd!x"))
				case "role":
					msg.Set(fd, protoreflect.ValueOfString("member"))
				case "client_key":
					msg.Set(fd, protoreflect.ValueOfString("c13-extra-client"))
				case "root", "initial_root":
					msg.Set(fd, protoreflect.ValueOfString(`{"k":"v"}`))
				case "topic":
					msg.Set(fd, protoreflect.ValueOfString("topic"))
				case "label":
					msg.Set(fd, protoreflect.ValueOfString("label"))
				case "schema_name":
					msg.Set(fd, protoreflect.ValueOfString("noschema"))
				default:
					// leave empty
				}
			case fd.Kind() == protoreflect.MessageKind && !fd.IsList() && !fd.IsMap():
				msg.Set(fd, protoreflect.ValueOfMessage(dynamicpb.NewMessage(fd.Message())))
			case fd.Kind() == protoreflect.BoolKind && fd.Name() == "synchronous":
				msg.Set(fd, protoreflect.ValueOfBool(true))
			case fd.Kind() == protoreflect.MessageKind || fd.Kind() == protoreflect.EnumKind || fd.Kind() == protoreflect.BoolKind ||
				fd.Kind() == protoreflect.Int32Kind || fd.Kind() == protoreflect.Int64Kind || fd.Kind() == protoreflect.BytesKind || fd.IsList() || fd.IsMap():
				// defaults
			default:
				unknown = append(unknown, string(fd.FullName()))
			}
		}
	}
	if len(unknown) > 0 {
		return nil, nil, fmt.Errorf("cannot classify fields %v", unknown)
	}
	return msg, kinds, nil
}

type c13case struct {
	Default bool              `json:"use_default_project"`
	Proc    string            `json:"procedure"`
	Cred    string            `json:"credential"`
	Assign  map[string]string `json:"assign"`
}

// idKinds are id spaces whose foreign values must be refused (keys merely name
// another object inside the caller's own project).
var c13IDKinds = map[string]bool{"client": true, "docid": true, "projectid": true, "projectname": true, "revision": true, "session": true}

// c13SecretKinds: the property's "cannot learn the existence" clause is about
// clients and documents (user and project names are account-level names).
var c13SecretKinds = map[string]bool{"client": true, "docid": true}

var c13Refused = map[string]bool{"not_found": true, "unauthenticated": true, "permission_denied": true}

func (cw *c13world) headers(svc, cred string) map[string]string {
	h := map[string]string{}
	switch cred {
	case "none":
	case "attacker-key":
		h["x-api-key"] = cw.att.project.PublicKey
	case "garbage-key":
		h["x-api-key"] = "not-a-key"
	case "garbage-token":
		h["authorization"] = "Bearer garbage.token.value"
	case "attacker-token":
		h["authorization"] = "Bearer " + cw.att.token
	case "attacker-secret":
		h["authorization"] = "API-Key " + cw.att.project.SecretKey
	case "wrong-secret":
		h["x-cluster-secret"] = "wrong"
	case "right-secret":
		h["x-cluster-secret"] = c13ClusterSecret
	}
	return h
}

func c13Creds(svc string) []string {
	switch svc {
	case "YorkieService":
		return []string{"none", "garbage-key", "attacker-key"}
	case "AdminService":
		return []string{"none", "garbage-token", "attacker-token", "attacker-secret"}
	default:
		return []string{"none", "wrong-secret"}
	}
}

// publicProcedures need no credential by design.
var c13Public = map[string]bool{"SignUp": true, "LogIn": true, "AcceptInvite": true}

func c13Eval(cw *c13world, c *c13case, md protoreflect.MethodDescriptor) (string, string) {
	svc := string(md.Parent().Name())
	msg, kinds, err := cw.fill(md.Input(), c.Assign)
	if err != nil {
		return "harness: " + err.Error(), ""
	}
	_ = kinds
	body, _ := proto.Marshal(msg)
	path := "/" + string(md.Parent().FullName()) + "/" + string(md.Name())
	streaming := md.IsStreamingServer() || md.IsStreamingClient()
	before := cw.victimDump()
	sessBefore := cw.victimSessions()
	code, emsg, rb := c13call(cw.w, path, streaming, body, cw.headers(svc, c.Cred))
	cw.w.WaitBackground()
	// a valid call on the attacker's own project may have changed its keys
	// (RotateProjectKeys, UpdateProject): keep using the current ones, or every
	// later case with the attacker's key would silently be an unauthenticated one
	if info, err := cw.w.BE.DB.FindProjectInfoByID(context.Background(), cw.att.project.ID); err == nil && info != nil {
		cw.att.project = info.ToProject()
	}
	after := cw.victimDump()
	out := code
	if before != after {
		return "victim project's stored state changed (" + code + ")\n" + firstDiff(before, after), out
	}
	if n := cw.victimSessions(); n != sessBefore {
		// repair the victim for the next case, then report
		_ = cw.makeRevisionAndSession(&cw.vic)
		return fmt.Sprintf("victim project's channel sessions changed: %d -> %d (%s)", sessBefore, n, code), out
	}
	if code == "handler_panic" {
		anyForeign := false
		for _, v := range c.Assign {
			if v == "foreign" {
				anyForeign = true
			}
		}
		validCred := c.Cred == "attacker-key" || c.Cred == "attacker-token" || c.Cred == "attacker-secret" || c.Cred == "right-secret"
		if validCred && !anyForeign {
			// a valid caller using only its own objects: a crash here is a
			// robustness defect outside this property's quantifier
			return "", out
		}
		return "the handler panicked instead of refusing: " + emsg, out
	}
	if bytes.Contains(rb, []byte(c13Marker)) {
		return "response contains the victim's document content (" + code + ")", out
	}
	// nor any id of the victim that the caller did not supply itself (document
	// keys are the same string on both sides, ids are not; an error message may
	// echo what was sent)
	for kind, id := range map[string]string{"docid": cw.vic.docID, "client": cw.vic.clientID, "revision": cw.vic.revisionID, "session": cw.vic.sessionID, "projectid": cw.vic.project.ID.String()} {
		if id == "" || c.Assign[kind] == "foreign" || c.Cred == "right-secret" {
			continue
		}
		if bytes.Contains(rb, []byte(id)) {
			return fmt.Sprintf("response contains an id of the victim project that the caller did not supply (%s id, %s)", kind, code), out
		}
	}
	foreignID := false
	for k, v := range c.Assign {
		if v == "foreign" && c13IDKinds[k] {
			foreignID = true
		}
	}
	if !foreignID && svc == "YorkieService" && c.Cred == "attacker-key" {
		// a valid call on the attacker's own objects may have changed them
		// (detach, deactivate, remove): give the attacker a fresh client and document
		defer cw.refreshAttacker()
	}
	credOK := c.Cred == "attacker-key" || c.Cred == "attacker-token" || c.Cred == "attacker-secret" || c.Cred == "right-secret"
	noCredNeeded := c13Public[string(md.Name())] || (svc == "YorkieService" && c.Cred == "none" && c.Default)
	if !credOK && !noCredNeeded {
		if !c13Refused[code] {
			return fmt.Sprintf("call without a valid credential answered %s (%s)", code, emsg), out
		}
		return "", out
	}
	if foreignID {
		if !c13Refused[code] {
			// Acceptable only if the procedure does not use the value at all:
			// then an id that exists nowhere is answered in exactly the same way.
			alt := map[string]string{}
			for k, v := range c.Assign {
				if v == "foreign" && c13IDKinds[k] {
					alt[k] = "nonexistent"
				} else {
					alt[k] = v
				}
			}
			if msg2, _, err := cw.fill(md.Input(), alt); err == nil {
				body2, _ := proto.Marshal(msg2)
				code2, emsg2, _ := c13call(cw.w, path, streaming, body2, cw.headers(svc, c.Cred))
				cw.w.WaitBackground()
				if code2 == code && shape(emsg2) == shape(emsg) {
					return "", out + "(id ignored)"
				}
			}
			return fmt.Sprintf("call naming a foreign id answered %s (%s)", code, emsg), out
		}
		// indistinguishability: same answer for an id that exists nowhere
		secret := false
		for k, v := range c.Assign {
			if v == "foreign" && c13SecretKinds[k] {
				secret = true
			}
		}
		if !secret {
			return "", out
		}
		alt := map[string]string{}
		for k, v := range c.Assign {
			if v == "foreign" && c13IDKinds[k] {
				alt[k] = "nonexistent"
			} else {
				alt[k] = v
			}
		}
		msg2, _, err := cw.fill(md.Input(), alt)
		if err == nil {
			body2, _ := proto.Marshal(msg2)
			code2, emsg2, _ := c13call(cw.w, path, streaming, body2, cw.headers(svc, c.Cred))
			cw.w.WaitBackground()
			if code2 != code || shape(emsg2) != shape(emsg) {
				return fmt.Sprintf("existence of a foreign id is observable: existing -> %s (%s), nonexistent -> %s (%s)", code, shape(emsg), code2, shape(emsg2)), out
			}
		}
	}
	return "", out
}

var reWrongCredType = regexp.MustCompile(`interface conversion: interface \{\} is nil, not \*types\.(User|Project)`)

func c13Core(proc, cred string, foreign []string, diff string) string {
	if strings.Contains(diff, "handler panicked") && reWrongCredType.MatchString(diff) {
		// user-scoped admin procedures read the user from the context, project-scoped
		// ones the project; a valid credential of the other kind leaves it nil
		return "isolation|handler-panic|valid-credential-of-the-other-kind|cred=" + cred
	}
	return fmt.Sprintf("isolation|%s|cred=%s|foreign=%s|%s", proc, cred, strings.Join(foreign, ","), hist.NormErr(shape(firstLineOf(diff))))
}

var reID = regexp.MustCompile(`[0-9a-f]{24}|no-such-project|nosuchuser|victimuser-proj|victimuser|attacker-proj|attacker`)

func shape(msg string) string { return reID.ReplaceAllString(msg, "#") }

func firstDiff(a, b string) string {
	la, lb := strings.Split(a, "\n"), strings.Split(b, "\n")
	for i := 0; i < len(la) && i < len(lb); i++ {
		if la[i] != lb[i] {
			return "before: " + truncateStr(la[i], 300) + "\nafter:  " + truncateStr(lb[i], 300)
		}
	}
	return fmt.Sprintf("row count %d -> %d", len(la), len(lb))
}

func truncateStr(s string, n int) string {
	if len(s) > n {
		return s[:n] + "..."
	}
	return s
}

func c13Methods() []protoreflect.MethodDescriptor {
	var out []protoreflect.MethodDescriptor
	for _, fd := range []protoreflect.FileDescriptor{api.File_yorkie_v1_yorkie_proto, api.File_yorkie_v1_admin_proto, api.File_yorkie_v1_cluster_proto} {
		svcs := fd.Services()
		for i := 0; i < svcs.Len(); i++ {
			ms := svcs.Get(i).Methods()
			for j := 0; j < ms.Len(); j++ {
				out = append(out, ms.Get(j))
			}
		}
	}
	return out
}

func c13Cases(md protoreflect.MethodDescriptor, useDefault bool, cw *c13world) []*c13case {
	_, kinds, err := cw.fill(md.Input(), map[string]string{})
	if err != nil {
		return []*c13case{{Default: useDefault, Proc: string(md.FullName()), Cred: "harness", Assign: map[string]string{"error": err.Error()}}}
	}
	// every subset of the id/key kinds is foreign
	uniq := map[string]bool{}
	var ks []string
	for _, k := range kinds {
		if !uniq[k] {
			uniq[k] = true
			ks = append(ks, k)
		}
	}
	sort.Strings(ks)
	var out []*c13case
	svc := string(md.Parent().Name())
	for _, cred := range c13Creds(svc) {
		for mask := 0; mask < 1<<len(ks); mask++ {
			as := map[string]string{}
			for i, k := range ks {
				if mask&(1<<i) != 0 {
					as[k] = "foreign"
				} else {
					as[k] = "own"
				}
			}
			out = append(out, &c13case{Default: useDefault, Proc: string(md.FullName()), Cred: cred, Assign: as})
		}
	}
	return out
}

var c13Worlds = map[bool]*c13world{}

func c13World(useDefault bool) (*c13world, error) {
	if w, ok := c13Worlds[useDefault]; ok {
		return w, nil
	}
	w, err := c13Setup(useDefault)
	if err != nil {
		return nil, err
	}
	c13Worlds[useDefault] = w
	return w, nil
}

func c13Run(env *Env) *Result {
	res := NewResult()
	for _, useDefault := range []bool{false, true} {
		cw, err := c13Setup(useDefault)
		if err != nil {
			res.HarnessErr = append(res.HarnessErr, "setup: "+err.Error())
			return res
		}
		c13Worlds[useDefault] = cw
		procs := 0
		for _, md := range c13Methods() {
			procs++
			for _, c := range c13Cases(md, useDefault, cw) {
				if c.Cred == "harness" {
					res.HarnessErr = append(res.HarnessErr, c.Proc+": "+c.Assign["error"])
					continue
				}
				raw, _ := json.Marshal(c)
				env.Current(&Found{Property: "C13", Case: raw})
				diff, code := c13Eval(cw, c, md)
				res.Evaluations++
				foreign := false
				for _, v := range c.Assign {
					if v == "foreign" {
						foreign = true
					}
				}
				if foreign || c.Cred == "none" || strings.HasPrefix(c.Cred, "garbage") || c.Cred == "wrong-secret" {
					res.Nontrivial++
				}
				res.Outcome(string(md.Name()) + "|" + c.Cred + "|" + code)
				res.Count("code:"+code, 1)
				if len(res.Samples) < 4 && foreign && res.Evaluations%37 == 0 {
					res.Sample(map[string]any{"case": c, "answer": code})
				}
				if strings.HasPrefix(diff, "harness") {
					res.HarnessErr = append(res.HarnessErr, diff)
					continue
				}
				if diff != "" {
					var fk []string
					for k, v := range c.Assign {
						if v == "foreign" {
							fk = append(fk, k)
						}
					}
					sort.Strings(fk)
					res.AddFound(Found{Property: "C13", Kind: "isolation", Sig: "isolation:" + string(md.Name()),
						Detail: fmt.Sprintf("%s\ncase: %s", diff, raw), Case: raw,
						Core: c13Core(string(md.Name()), c.Cred, fk, diff)})
				}
			}
		}
		res.Count("procedures", procs)
		cw.w.Close()
	}
	res.Completed = append(res.Completed, "c13/full-matrix/use_default_project=false,true")
	return res
}

func init() {
	register(&Check{
		ID:    "C13",
		Level: "exploration",
		Rule: "the complete finite matrix: every procedure of YorkieService, AdminService and ClusterService (enumerated from the generated service descriptors, requests filled by protoreflect from field names; " +
			"an unclassifiable field fails the check) x credential (Yorkie: none/garbage key/other project's key; Admin: none/garbage token/other user's token/other project's secret key; Cluster: none/wrong secret) " +
			"x every subset of {client id, document id, document key, channel key, project id/name, username} taken from the victim project, for UseDefaultProject in {false,true}; " +
			"oracle: no valid credential -> unauthenticated/permission_denied; a foreign id -> not_found/unauthenticated/permission_denied AND the same code and message shape as for an id that exists nowhere; " +
			"the victim project's rows in every memdb table byte-identical before/after every call; no response contains the victim's document content; " +
			"non-trivial = calls with a missing/garbage credential or at least one foreign value",
		Assume:        []string{"memdb backend", "webhook-based authorization (project auth webhook) not configured", "streaming procedures are given 1.5 s to refuse; a stream that stays open counts as accepted"},
		QuickBudget:   300 * time.Second,
		SingleProcess: true,
		Run:           c13Run,
		Reproduce: func(f *Found) (bool, error) {
			var c c13case
			if err := json.Unmarshal(f.Case, &c); err != nil {
				return false, err
			}
			cw, err := c13World(c.Default)
			if err != nil {
				return false, err
			}
			for _, md := range c13Methods() {
				if string(md.FullName()) == c.Proc {
					diff, _ := c13Eval(cw, &c, md)
					if strings.HasPrefix(diff, "harness") {
						return false, fmt.Errorf("%s", diff)
					}
					return diff != "", nil
				}
			}
			return false, fmt.Errorf("unknown procedure %s", c.Proc)
		},
	})
}
