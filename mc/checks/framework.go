// Package checks defines one check per property on top of the engines.
package checks

import (
	"encoding/json"
	"fmt"
	"os"
	"sort"
	"strings"
	"sync/atomic"
	"time"

	"github.com/yorkie-team/yorkie/pkg/document"

	"verifmc/hist"
)

// Found is a violation together with the case that produced it.
type Found struct {
	Property string          `json:"property"`
	Kind     string          `json:"kind"`
	Sig      string          `json:"sig"`
	Detail   string          `json:"detail"`
	Scenario *hist.Scenario  `json:"scenario,omitempty"`
	Cfg      *hist.Config    `json:"cfg,omitempty"`
	Hist     []hist.Event    `json:"hist,omitempty"`
	Case     json.RawMessage `json:"case,omitempty"` // non-history checks
	Core     string          `json:"core,omitempty"`
	// Instance identifies the exact violating history (oracle kind, signature,
	// configuration and every event) for checks that keep an instance baseline
	// (known_instances/<ID>.txt). KnownInstance: the history is listed there;
	// NewInstance: a baseline exists and does not list it; BaseCore: the core
	// of the new instance without the "not in baseline" mark.
	Instance      string `json:"instance,omitempty"`
	KnownInstance bool   `json:"known_instance,omitempty"`
	NewInstance   bool   `json:"new_instance,omitempty"`
	BaseCore      string `json:"base_core,omitempty"`
	Original      string `json:"original_history,omitempty"`
	// Flaky: a new instance that did not recur on every re-execution (the code
	// under test iterates Go maps).
	Flaky bool `json:"flaky,omitempty"`
}

// Result is what one worker (or a merged run) reports.
type Result struct {
	Evaluations int            `json:"evaluations"`
	Nontrivial  int            `json:"nontrivial"`
	States      int            `json:"states,omitempty"`
	Transitions int            `json:"transitions,omitempty"`
	Outcomes    map[string]int `json:"outcomes,omitempty"` // distinct outcome keys (capped)
	Counters    map[string]int `json:"counters,omitempty"`
	Samples     []any          `json:"samples,omitempty"`
	Found       []Found        `json:"found,omitempty"`
	// Incomplete lists scenarios that hit the time budget.
	Incomplete []string `json:"incomplete,omitempty"`
	Completed  []string `json:"completed,omitempty"`
	Notes      []string `json:"notes,omitempty"`
	HarnessErr []string `json:"harness_err,omitempty"`
	// Instances (recording mode only): every violating instance -> its core.
	Instances map[string]string `json:"instances,omitempty"`
}

// NewResult allocates maps.
func NewResult() *Result {
	return &Result{Outcomes: map[string]int{}, Counters: map[string]int{}}
}

const maxOutcomes = 200000
const maxFoundPerSig = 3

// Outcome records a distinct outcome key.
func (r *Result) Outcome(k string) {
	if _, ok := r.Outcomes[k]; ok || len(r.Outcomes) < maxOutcomes {
		r.Outcomes[k]++
	}
}

// Count bumps a named counter.
func (r *Result) Count(k string, n int) { r.Counters[k] += n }

// Sample keeps up to 5 samples.
func (r *Result) Sample(s any) {
	if len(r.Samples) < 5 {
		r.Samples = append(r.Samples, s)
	}
}

// AddFound records a violation, keeping the shortest few cases per signature.
func (r *Result) AddFound(f Found) {
	n := 0
	worst := -1
	for i := range r.Found {
		if r.Found[i].Kind == f.Kind && r.Found[i].Sig == f.Sig && r.Found[i].Core == f.Core && (f.Core != "" || sameOps(r.Found[i].Hist, f.Hist)) {
			n++
			if worst < 0 || len(r.Found[i].Hist) > len(r.Found[worst].Hist) {
				worst = i
			}
		}
	}
	if n < maxFoundPerSig {
		r.Found = append(r.Found, f)
		return
	}
	if len(f.Hist) < len(r.Found[worst].Hist) {
		r.Found[worst] = f
	}
}

func opSet(h []hist.Event) string {
	m := map[string]bool{}
	for _, e := range h {
		if e.K == "e" {
			m[e.Op] = true
		} else if e.K != "s" {
			m[e.K] = true
		}
	}
	var ks []string
	for k := range m {
		ks = append(ks, k)
	}
	sort.Strings(ks)
	return strings.Join(ks, ",")
}

func sameOps(a, b []hist.Event) bool { return opSet(a) == opSet(b) }

// Merge folds o into r.
func (r *Result) Merge(o *Result) {
	r.Evaluations += o.Evaluations
	r.Nontrivial += o.Nontrivial
	r.States += o.States
	r.Transitions += o.Transitions
	for k, v := range o.Outcomes {
		if _, ok := r.Outcomes[k]; ok || len(r.Outcomes) < maxOutcomes {
			r.Outcomes[k] += v
		}
	}
	for k, v := range o.Counters {
		r.Counters[k] += v
	}
	for _, s := range o.Samples {
		r.Sample(s)
	}
	for _, f := range o.Found {
		r.AddFound(f)
	}
	if len(o.Instances) > 0 && r.Instances == nil {
		r.Instances = map[string]string{}
	}
	for k, v := range o.Instances {
		r.Instances[k] = v
	}
	r.Incomplete = append(r.Incomplete, o.Incomplete...)
	r.Completed = append(r.Completed, o.Completed...)
	r.Notes = append(r.Notes, o.Notes...)
	r.HarnessErr = append(r.HarnessErr, o.HarnessErr...)
}

// Env is what a worker gets.
// VerifDir is the framework's home (known findings, evidence, replays, build
// output): /verif unless VERIF_DIR names a scratch copy.
func VerifDir() string {
	if d := os.Getenv("VERIF_DIR"); d != "" {
		return d
	}
	return "/verif"
}

type Env struct {
	Tier     string
	Shard    int
	NShards  int
	Deadline time.Time
	Seed     int64
	// CurFile receives the case being executed, so that the driver can name the
	// culprit when a worker dies.
	CurFile string
}

// Progress is bumped for every execution; the watchdog reads it.
var Progress atomic.Int64

// Current records the case about to be executed.
func (e *Env) Current(f *Found) {
	Progress.Add(1)
	if e.CurFile == "" {
		return
	}
	b, err := json.Marshal(f)
	if err == nil {
		_ = os.WriteFile(e.CurFile, b, 0o644)
	}
}

// Expired reports whether the time budget is used up.
func (e *Env) Expired() bool { return time.Now().After(e.Deadline) }

// Check is one property's machinery.
type Check struct {
	ID     string
	Level  string // evidence level
	Rule   string
	Assume []string
	// Budget is the worker time budget per tier.
	QuickBudget, ThoroughBudget time.Duration
	// Run explores the shard.
	Run func(env *Env) *Result
	// Reproduce re-evaluates one found case and reports whether it still
	// violates with the same kind+signature (used for 5x re-run and minimisation).
	Reproduce func(f *Found) (bool, error)
	// Minimise returns a smaller found case (optional).
	Minimise func(f *Found) *Found
	// SingleProcess: run in one worker only.
	SingleProcess bool
	// PostRun runs once in the driver after the workers (e.g. the -race pass).
	PostRun func(res *Result, tier string)
}

// Registry of checks.
var Registry = map[string]*Check{}

func register(c *Check) {
	if c.QuickBudget == 0 {
		c.QuickBudget = 150 * time.Second
	}
	if c.ThoroughBudget == 0 {
		c.ThoroughBudget = 25 * time.Minute
	}
	Registry[c.ID] = c
}

// CoreKey is the identity of a (minimised) violation used to match known
// findings: oracle kind, normalised signature, initial content and the set of
// edit kinds / non-sync event kinds of the minimised history.
func CoreKey(f *Found) string {
	if f.Core != "" {
		return f.Core
	}
	init := ""
	if f.Scenario != nil {
		init = strings.Join(f.Scenario.Init, "+")
	}
	if f.Hist == nil && f.Case != nil {
		return fmt.Sprintf("%s|%s|case=%s", f.Kind, f.Sig, string(f.Case))
	}
	return fmt.Sprintf("%s|%s|init=%s|ops=%s", f.Kind, f.Sig, init, opSet(f.Hist))
}

// CoreOf renders the canonical core of a history violation: oracle kind,
// signature and the ordered list of non-sync events with syncs kept as "s".
func CoreOf(f *Found) string {
	if f.Core != "" {
		return f.Core
	}
	init := ""
	if f.Scenario != nil {
		init = strings.Join(f.Scenario.Init, "+")
	}
	return fmt.Sprintf("%s|%s|init=%s|%s", f.Kind, f.Sig, init, hist.HistString(f.Hist))
}

// drainStops holds the stop channels of the goroutines that drain the event
// channels of documents made by single-replica checks (a document blocks in
// ApplyChangePack / Update when nobody reads its events, and the channel is
// never closed). releaseDocs ends them: called at the end of every case, else
// one goroutine and one document leak per case (20 MB/s in C08's loop).
var drainStops []chan struct{}

func drainEvents(events <-chan document.DocEvent) {
	stop := make(chan struct{})
	drainStops = append(drainStops, stop)
	go func() {
		for {
			select {
			case <-events:
			case <-stop:
				return
			}
		}
	}()
}

func releaseDocs() {
	for _, s := range drainStops {
		close(s)
	}
	drainStops = drainStops[:0]
}
