package checks

import (
	"fmt"
	"math/rand"
	"os"
	"runtime"
	"sync"
	"time"

	"github.com/yorkie-team/yorkie/server/backend/background"
	ysync "github.com/yorkie-team/yorkie/server/backend/sync"

	"verifmc/hist"
)

// RacePass runs the Engine S harness bodies free (no scheduler) on all cores
// with yield jitter at lock boundaries, in a binary built with -race. It is a
// detector, not the deciding step: cooperative hand-offs are happens-before
// edges that blind the race detector, so unsynchronised accesses between two
// scheduling points are looked for here.
func RacePass(seconds float64, seed int64) (iterations int) {
	deadline := time.Now().Add(time.Duration(seconds * float64(time.Second)))
	rng := rand.New(rand.NewSource(seed))
	var jmu sync.Mutex
	jitter := func() {
		jmu.Lock()
		n := rng.Intn(4)
		jmu.Unlock()
		for i := 0; i < n; i++ {
			runtime.Gosched()
		}
	}
	install := func() {
		ysync.VerifTraceFunc = func(op, k string) { jitter() }
		background.VerifSpawnFunc = nil
		if sRunnerWorld != nil {
			sRunnerWorld.DBW.Before = func(string) error { jitter(); return nil }
		}
	}
	scs := sScenarios()
	for time.Now().Before(deadline) {
		for _, sc := range scs {
			if !time.Now().Before(deadline) {
				break
			}
			sw, err := newSWorld(sc.Clients, sc.Threshold, sc.Interval)
			if err != nil {
				fmt.Fprintln(os.Stderr, "racepass harness:", err)
				return
			}
			install()
			if err := sw.setup(sc.Attached); err != nil {
				fmt.Fprintln(os.Stderr, "racepass setup:", err)
				sw.close()
				continue
			}
			threads := sc.Threads(sw)
			var wg sync.WaitGroup
			for _, th := range threads {
				th := th
				wg.Add(1)
				go func() { defer wg.Done(); _ = th.Run() }()
			}
			done := make(chan struct{})
			go func() { wg.Wait(); close(done) }()
			select {
			case <-done:
			case <-time.After(60 * time.Second):
				fmt.Fprintf(os.Stderr, "RACEPASS-HANG scenario=%s\n", sc.Name)
				return
			}
			sw.w.WaitBackground()
			sw.close()
			iterations++
		}
		// a wider mix: 6 clients x 2 edits, all syncing at once, snapshots on
		sw, err := newSWorld(6, 2, 2)
		if err != nil {
			return
		}
		install()
		if err := sw.setup(6); err == nil {
			var wg sync.WaitGroup
			for _, c := range sw.clients {
				c := c
				sw.edit(c)
				wg.Add(1)
				go func() {
					defer wg.Done()
					for k := 0; k < 3; k++ {
						_ = sw.pushpull(c)
					}
				}()
			}
			wg.Wait()
			sw.w.WaitBackground()
		}
		sw.close()
		iterations++
	}
	_ = hist.Big
	return iterations
}
