package checks

import (
	"context"
	"fmt"
	"math"
	"strings"
	"time"

	"github.com/yorkie-team/yorkie/api/converter"
	yktime "github.com/yorkie-team/yorkie/pkg/document/time"
	"github.com/yorkie-team/yorkie/server/backend/database"

	"verifmc/hist"
)

func c06Scenarios(tier string) []*hist.Scenario {
	var out []*hist.Scenario
	never := hist.Config{Threshold: hist.Big, Interval: hist.Big}
	fams := []family{
		{"obj", []string{"init.o"}, []string{"o.set1", "o.del1", "o.setobj1"}},
		{"arr", []string{"init.a"}, []string{"a.push", "a.delL", "a.mv0L"}},
		{"txt", []string{"init.t"}, []string{"t.insM", "t.delF", "t.styF"}},
		{"cnt", []string{"init.c"}, []string{"c.inc1"}},
		{"tree", []string{"init.tr"}, []string{"tr.insT1", "tr.delP0", "tr.sty0"}},
		// changes that carry a presence change together with operations, next to
		// presence-only and operations-only ones (seeded change C06-2: the two
		// sites that decide a change's clock disagreed only for the mixed kind)
		{"mix", []string{"init.o"}, []string{"p.set1+o.set1", "o.set1", "p.set1"}},
	}
	mk := func(f family, al []string, tag string, n, late, k, y, d, maxPer int, cfg hist.Config) {
		name := fmt.Sprintf("c06/%s/%s/%sN%dL%dK%dY%dD%d", f.name, strings.Join(al, "+"), tag, n, late, k, y, d)
		out = append(out, &hist.Scenario{Name: name, N: n, Late: late, Init: f.init, Alphabet: al, K: k, Y: y, D: d, MaxPerClient: maxPer, Cfg: cfg})
	}
	snap := hist.Config{Threshold: 1, Interval: 1}
	snap2 := hist.Config{Threshold: 2, Interval: 2}
	optout := hist.Config{Threshold: hist.Big, Interval: hist.Big, OptOut: []int{1}}
	// Smallest shapes first (histories in normal form before no-effect pruning,
	// `vcheck countshape`): N2K2Y3 0.25k (pair of kinds 0.84k), N3K3Y3 one edit
	// per client 0.93k, N1L1K2Y3 1.5k, N2K1Y2D2 3.8k, N2L1K2Y2D1 5.9k, N2K3Y3 pair
	// 3.9k, N3K3Y4 3.9k, N2L1K2Y3D1 32k, N2K2Y3D2 64k, N2L1K2Y2D2 92k.
	for _, f := range fams {
		for _, al := range pairs(f.ops) {
			if tier == "quick" && len(al) == 2 && f.name != "arr" && f.name != "obj" {
				continue
			}
			mk(f, al, "", 2, 0, 2, 3, 0, 0, never)
		}
		for _, op := range f.ops {
			// one opted-out (disable_gc) participant
			mk(f, []string{op}, "optout1/", 2, 0, 2, 3, 0, 0, optout)
			// three clients
			mk(f, []string{op}, "", 3, 0, 3, 3, 0, 1, never)
			// snapshots: receivers adopt the snapshot's clocks
			mk(f, []string{op}, "snap1-1/", 1, 1, 2, 3, 0, 0, snap)
		}
	}
	// attach/detach mixes: the detached client's row must vanish, minVV over the rest
	for i, f := range fams {
		mk(f, f.ops[:1], "", 2, 0, 1, 2, 2, 0, never)
		if i < 3 || tier == "thorough" {
			mk(f, f.ops[:1], "", 2, 1, 2, 2, 1, 0, never)
		}
	}
	// three clients of which one leaves (detach / deactivate) while another lags:
	// the leaver's row goes, the others' rows stay and keep constraining the minimum
	for i, f := range fams {
		if i >= 4 && tier == "quick" {
			break
		}
		k, y := 1, 2 // 2.2k histories per kind; thorough K2Y3: 31k
		if tier == "thorough" {
			k, y = 2, 3
		}
		name := fmt.Sprintf("c06/%s/%s/leaveN3K%dY%dD1", f.name, f.ops[0], k, y)
		out = append(out, &hist.Scenario{Name: name, N: 3, Init: f.init, Alphabet: f.ops[:1], K: k, Y: y, D: 1, Deact: true, MaxPerClient: 1, Cfg: never})
	}
	// changes made by undo / redo carry clocks like any other change
	for i, f := range fams {
		if i >= 4 {
			break
		}
		name := fmt.Sprintf("c06/%s/%s/undoN2K2U2Y3", f.name, f.ops[0])
		out = append(out, &hist.Scenario{Name: name, N: 2, Init: f.init, Alphabet: f.ops[:1], K: 2, U: 2, Y: 3, Cfg: never})
	}
	if tier == "quick" {
		return out
	}
	for _, f := range fams {
		for _, op := range f.ops {
			mk(f, []string{op}, "snap2-2/", 1, 1, 3, 3, 0, 0, snap2)
			mk(f, []string{op}, "", 3, 0, 3, 4, 0, 1, never)
		}
		for _, al := range pairs(f.ops) {
			mk(f, al, "", 2, 0, 3, 3, 0, 0, never)
		}
	}
	for _, f := range fams {
		mk(f, f.ops[:1], "", 2, 1, 2, 3, 1, 0, never)
	}
	for _, f := range fams {
		mk(f, f.ops[:1], "", 2, 0, 2, 3, 2, 0, never)
	}
	for _, f := range fams {
		mk(f, f.ops[:1], "", 2, 1, 2, 2, 2, 0, never)
	}
	return out
}

func vvStr(x *hist.Exec, vv yktime.VersionVector) string {
	var parts []string
	for _, rep := range x.Reps {
		if l, ok := vv.Get(rep.Cli.ID()); ok {
			parts = append(parts, fmt.Sprintf("c%d:%d", rep.Role, l))
		}
	}
	return "{" + strings.Join(parts, ",") + "}"
}

// c06OnRPC checks the minimum-vector clauses at every response.
func c06OnRPC(x *hist.Exec) func(rpc *hist.RPC) {
	return func(rpc *hist.RPC) {
		if rpc.Status != 200 || rpc.Resp == nil {
			return
		}
		role := x.RoleOf(rpc.ClientID)
		if role < 0 {
			return
		}
		di, err := x.DocInfo()
		if err != nil {
			return
		}
		rows := map[string]yktime.VersionVector{}
		for _, raw := range x.R.W.MemDB.DumpTableForVerif("versionvectors") {
			v := raw.(*database.VersionVectorInfo)
			if v.DocID == di.ID {
				rows[v.ClientID.String()] = v.VersionVector
			}
		}
		if x.Data["rpcs"] == nil {
			x.Data["rpcs"] = 0
		}
		x.Data["rpcs"] = x.Data["rpcs"].(int) + 1
		optOut := x.Cfg.IsOptOut(role)
		// Detach: the row must be gone.
		if rpc.Proc == "DetachDocument" {
			if _, ok := rows[rpc.ClientID]; ok {
				x.Viol = append(x.Viol, hist.Violation{Kind: "vv-row-leak", Sig: "vv-row-leak:detach",
					Detail: fmt.Sprintf("client %d detached but its version-vector row remains", role)})
			}
			return
		}
		if optOut {
			if _, ok := rows[rpc.ClientID]; ok {
				x.Viol = append(x.Viol, hist.Violation{Kind: "vv-row-optout", Sig: "vv-row-optout",
					Detail: fmt.Sprintf("opted-out client %d has a version-vector row", role)})
			}
			return
		}
		// The requester's row is its request-time vector, which never exceeds
		// what the replica had actually applied when it sent the request.
		if row, ok := rows[rpc.ClientID]; ok {
			if have := x.ReqVV[role]; have != nil {
				for a, l := range row {
					if l > have.VersionOf(a) {
						x.Viol = append(x.Viol, hist.Violation{Kind: "vv-row-overstates", Sig: "vv-row-overstates",
							Detail: fmt.Sprintf("client %d row %s > replica vector at request time %s", role, vvStr(x, row), vvStr(x, have))})
						return
					}
				}
			}
		}
		if len(rpc.Resp.Snapshot) > 0 || rpc.Resp.VersionVector == nil {
			return
		}
		minVV, err := converter.FromVersionVector(rpc.Resp.VersionVector)
		if err != nil {
			x.Viol = append(x.Viol, hist.Violation{Kind: "minvv-decode", Sig: "minvv-decode", Detail: err.Error()})
			return
		}
		x.Data["minvv"] = 1
		// against what every attached, participating client has actually
		// acknowledged - the harness's own record of the vector each replica sent
		// with its last request - not only against the rows the server kept (a
		// row that was wiped constrains nothing: seeded change C06-3)
		for _, rep := range x.Reps {
			if !rep.Attached || x.Cfg.IsOptOut(rep.Role) || rep.Role == role {
				continue
			}
			have := x.ReqVV[rep.Role]
			if have == nil {
				continue
			}
			if _, ok := rows[rep.Cli.ID().String()]; !ok {
				x.Viol = append(x.Viol, hist.Violation{Kind: "vv-row-missing", Sig: "vv-row-missing",
					Detail: fmt.Sprintf("after the response to client %d (%s) the attached client %d has no version-vector row", role, rpc.Proc, rep.Role)})
				return
			}
			for a, l := range minVV {
				if l > have.VersionOf(a) {
					x.Viol = append(x.Viol, hist.Violation{Kind: "minvv-overstates", Sig: "minvv-overstates:acknowledged",
						Detail: fmt.Sprintf("response to client %d (%s): minVV %s exceeds what the attached client %d has acknowledged %s",
							role, rpc.Proc, vvStr(x, minVV), rep.Role, vvStr(x, have))})
					return
				}
			}
		}
		for cid, row := range rows {
			for a, l := range minVV {
				if l > row.VersionOf(a) {
					x.Viol = append(x.Viol, hist.Violation{Kind: "minvv-overstates", Sig: "minvv-overstates",
						Detail: fmt.Sprintf("response to client %d (%s): minVV %s exceeds row of client %d %s",
							role, rpc.Proc, vvStr(x, minVV), x.RoleOf(cid), vvStr(x, row))})
					return
				}
			}
		}
	}
}

// c06Log checks the per-change clock clauses on the stored change log.
func c06Log(x *hist.Exec) {
	di, err := x.DocInfo()
	if err != nil {
		return
	}
	infos, err := x.R.W.BE.DB.FindChangeInfosBetweenServerSeqs(context.Background(), di.RefKey(), 1, math.MaxInt64)
	if err != nil {
		x.Viol = append(x.Viol, hist.Violation{Kind: "harness", Sig: "harness", Detail: err.Error()})
		return
	}
	type key struct {
		lamport int64
		actor   string
	}
	seen := map[key]int64{}
	lastLamport := map[string]int64{}
	bySeq := map[int64]*database.ChangeInfo{}
	// (actor, clientSeq) is not unique across re-attachments (a new Document
	// restarts clientSeq at 1): rows and creation records with the same key are
	// matched in order.
	byActorSeq := map[string][]*database.ChangeInfo{}
	for _, ci := range infos {
		bySeq[ci.ServerSeq] = ci
		k2 := fmt.Sprintf("%s/%d", ci.ActorID, ci.ClientSeq)
		byActorSeq[k2] = append(byActorSeq[k2], ci)
		hasClock := ci.Lamport != 0 && len(ci.VersionVector) > 0
		if len(ci.Operations) > 0 && !hasClock {
			x.Viol = append(x.Viol, hist.Violation{Kind: "clock-missing", Sig: "clock-missing",
				Detail: fmt.Sprintf("change serverSeq %d has operations but no clock", ci.ServerSeq)})
			return
		}
		if !hasClock {
			continue
		}
		actor, _ := ci.ActorID.ToActorID()
		if ci.VersionVector.VersionOf(actor) != ci.Lamport {
			x.Viol = append(x.Viol, hist.Violation{Kind: "clock-self", Sig: "clock-self",
				Detail: fmt.Sprintf("change serverSeq %d by c%d: vv[self]=%d lamport=%d", ci.ServerSeq, x.RoleOf(ci.ActorID.String()), ci.VersionVector.VersionOf(actor), ci.Lamport)})
			return
		}
		k := key{ci.Lamport, ci.ActorID.String()}
		if prev, dup := seen[k]; dup {
			x.Viol = append(x.Viol, hist.Violation{Kind: "clock-dup", Sig: "clock-dup",
				Detail: fmt.Sprintf("changes %d and %d share (lamport %d, actor c%d)", prev, ci.ServerSeq, ci.Lamport, x.RoleOf(ci.ActorID.String()))})
			return
		}
		seen[k] = ci.ServerSeq
		if ci.Lamport <= lastLamport[ci.ActorID.String()] {
			x.Viol = append(x.Viol, hist.Violation{Kind: "clock-nonmono", Sig: "clock-nonmono",
				Detail: fmt.Sprintf("actor c%d: lamport %d at serverSeq %d not above %d", x.RoleOf(ci.ActorID.String()), ci.Lamport, ci.ServerSeq, lastLamport[ci.ActorID.String()])})
			return
		}
		lastLamport[ci.ActorID.String()] = ci.Lamport
	}
	// causality: vv(c) >= vv(d), lamport(c) > lamport(d) for every d applied at the author before c was made
	pairsChecked := 0
	used := map[string]int{}
	for _, cr := range x.Created {
		rep := x.Reps[cr.Role]
		k2 := fmt.Sprintf("%s/%d", rep.Cli.ID().String(), cr.ClientSeq)
		rows := byActorSeq[k2]
		if used[k2] >= len(rows) {
			continue
		}
		c := rows[used[k2]]
		used[k2]++
		if c == nil || c.Lamport == 0 || len(c.VersionVector) == 0 {
			continue
		}
		optOut := x.Cfg.IsOptOut(cr.Role)
		for _, d := range infos {
			if d.Lamport == 0 || len(d.VersionVector) == 0 || d == c {
				continue
			}
			own := d.ActorID == c.ActorID && d.ServerSeq < c.ServerSeq
			if !(d.ServerSeq <= cr.CpServerSeq || own) {
				continue
			}
			pairsChecked++
			if c.Lamport <= d.Lamport {
				x.Viol = append(x.Viol, hist.Violation{Kind: "clock-causal-lamport", Sig: "clock-causal-lamport",
					Detail: fmt.Sprintf("change %d (c%d, lamport %d) was made after its author applied change %d (lamport %d)",
						c.ServerSeq, cr.Role, c.Lamport, d.ServerSeq, d.Lamport)})
				return
			}
			if optOut {
				continue // opted-out clients keep a size-1 vector by design
			}
			if x.Cfg.IsOptOut(x.RoleOf(d.ActorID.String())) {
				continue
			}
			for a, l := range d.VersionVector {
				if c.VersionVector.VersionOf(a) < l {
					x.Viol = append(x.Viol, hist.Violation{Kind: "clock-causal-vv", Sig: "clock-causal-vv",
						Detail: fmt.Sprintf("change %d (c%d) vv %s does not dominate vv %s of change %d applied before it",
							c.ServerSeq, cr.Role, vvStr(x, c.VersionVector), vvStr(x, d.VersionVector), d.ServerSeq)})
					return
				}
			}
		}
	}
	x.Data["pairs"] = pairsChecked
}

func c06Eval(r *hist.Runner, sc *hist.Scenario, h []hist.Event, res *Result) ([]hist.Violation, bool) {
	r.Prepare = func(x *hist.Exec) { x.OnRPC = c06OnRPC(x) }
	x := r.Run(sc, sc.Cfg, h)
	r.Prepare = nil
	defer x.Close()
	if n := len(x.Steps); n > 0 && x.Steps[n-1].NoEffect {
		return nil, true
	}
	x.Quiesce()
	if !x.Aborted {
		c06Log(x)
	}
	// Only clock violations are this property's; sync errors and divergence
	// belong to C01/C03 and are not reported here.
	var viol []hist.Violation
	for _, v := range x.Viol {
		if strings.HasPrefix(v.Kind, "clock-") || strings.HasPrefix(v.Kind, "minvv-") || strings.HasPrefix(v.Kind, "vv-") || v.Kind == "harness" {
			viol = append(viol, v)
		}
	}
	if res != nil {
		if p, ok := x.Data["pairs"].(int); ok {
			res.Count("causal_pairs_checked", p)
		}
		if n, ok := x.Data["rpcs"].(int); ok {
			res.Count("responses_checked", n)
		}
		if x.Data["minvv"] != nil {
			res.Count("executions_with_minvv_response", 1)
		}
		if len(x.Reps) > 0 {
			res.Outcome(sc.Init[0] + "|" + x.Reps[0].Doc.Marshal())
		}
	}
	return viol, false
}

func init() {
	spec := &HSpec{ID: "C06", Scenarios: c06Scenarios, Eval: c06Eval}
	registerH(spec, &Check{
		Level: "exploration",
		Rule: "every normal-form history of the scenario list (pairs of edit kinds, 2-3 clients, attach/detach mixes, snapshot threshold 1, one disable_gc participant); " +
			"monitors on every execution: per stored change vv[self]==lamport, (lamport,actor) unique, per-actor lamports increasing, " +
			"vv(c)>=vv(d) and lamport(c)>lamport(d) for every d its author had applied when c was made (harness records the author's checkpoint at creation); " +
			"at every response: minVV <= every stored row pointwise, requester's row <= replica vector at request time, row gone after detach, no row for opted-out clients; " +
			"non-trivial = concurrent edits",
		Assume:      []string{"memdb backend", "presence-only changes carry no clock by design and are excluded"},
		QuickBudget: 300 * time.Second,
	})
}
