package checks

import (
	"fmt"
	"strings"

	"github.com/yorkie-team/yorkie/pkg/document"
	yjson "github.com/yorkie-team/yorkie/pkg/document/json"
)

// C07, nested trees with splits. The reference model is the flat list of
// tokens inside the root element - "<d>", "</d>", "<p>", "</p>" or one
// character - which is exactly the index space of Tree.Edit: index i is the
// position before token i, Len() is the number of tokens, ToXML() is the root
// tag around their concatenation. An insertion inserts tokens, a deletion of a
// balanced range removes tokens, a split of level L at a position inserts the
// close tags of the L innermost open elements followed by their open tags.
// Deleted content stays inside the real tree as tombstones; it must never
// influence what a later index means (seeded change C07-3: the length of a
// split element forgot its tombstones).

const t2Key = "tr2"

func (m *model) t2XML() string { return "<doc>" + strings.Join(m.t2, "") + "</doc>" }

// t2Enclosing returns the stack of open elements (innermost last) at position i.
func (m *model) t2Enclosing(i int) []string {
	var st []string
	for _, tk := range m.t2[:i] {
		switch {
		case strings.HasPrefix(tk, "</"):
			st = st[:len(st)-1]
		case strings.HasPrefix(tk, "<"):
			st = append(st, tk[1:len(tk)-1])
		}
	}
	return st
}

func t2IsChar(tk string) bool { return !strings.HasPrefix(tk, "<") }

// positions strictly between two characters (inside a text run)
func (m *model) t2InnerTextPositions() []int {
	var out []int
	for i := 1; i < len(m.t2); i++ {
		if t2IsChar(m.t2[i-1]) && t2IsChar(m.t2[i]) {
			out = append(out, i)
		}
	}
	return out
}

// positions directly between two paragraphs: "</p>" | "<p>"
func (m *model) t2BetweenParagraphs() []int {
	var out []int
	for i := 1; i < len(m.t2); i++ {
		if m.t2[i-1] == "</p>" && m.t2[i] == "<p>" {
			out = append(out, i)
		}
	}
	return out
}

func (m *model) t2CharIndexes() []int {
	var out []int
	for i, tk := range m.t2 {
		if t2IsChar(tk) {
			out = append(out, i)
		}
	}
	return out
}

// whole paragraphs as [open, close] token indexes
func (m *model) t2Paragraphs() [][2]int {
	var out [][2]int
	open := -1
	for i, tk := range m.t2 {
		if tk == "<p>" {
			open = i
		} else if tk == "</p>" && open >= 0 {
			out = append(out, [2]int{open, i})
			open = -1
		}
	}
	return out
}

func pick(xs []int, cls string) (int, bool) {
	if len(xs) == 0 {
		return 0, false
	}
	switch cls {
	case "F":
		return xs[0], true
	case "M":
		return xs[len(xs)/2], true
	}
	return xs[len(xs)-1], true
}

func (m *model) t2Insert(i int, toks ...string) {
	m.t2 = append(append(append([]string{}, m.t2[:i]...), toks...), m.t2[i:]...)
}

func (m *model) t2Delete(i, j int) { m.t2 = append(append([]string{}, m.t2[:i]...), m.t2[j:]...) }

func tree2Tmpls() []tmpl {
	var out []tmpl
	for _, c := range []string{"F", "M", "L"} {
		c := c
		out = append(out, tmpl{"insChar@" + c, func(m *model, r *yjson.Object, v int) bool {
			i, ok := pick(m.t2InnerTextPositions(), c)
			if !ok {
				return false
			}
			m.t2Insert(i, letterOf(v))
			r.GetTree(t2Key).Edit(i, i, &yjson.TreeNode{Type: "text", Value: letterOf(v)}, 0)
			return true
		}})
		out = append(out, tmpl{"delChar@" + c, func(m *model, r *yjson.Object, v int) bool {
			i, ok := pick(m.t2CharIndexes(), c)
			if !ok {
				return false
			}
			m.t2Delete(i, i+1)
			r.GetTree(t2Key).Edit(i, i+1, nil, 0)
			return true
		}})
		out = append(out, tmpl{"split1inText@" + c, func(m *model, r *yjson.Object, v int) bool {
			i, ok := pick(m.t2InnerTextPositions(), c)
			if !ok {
				return false
			}
			m.t2Insert(i, "</p>", "<p>")
			r.GetTree(t2Key).Edit(i, i, nil, 1)
			return true
		}})
		out = append(out, tmpl{"split2inText@" + c, func(m *model, r *yjson.Object, v int) bool {
			i, ok := pick(m.t2InnerTextPositions(), c)
			if !ok || len(m.t2Enclosing(i)) < 2 {
				return false
			}
			m.t2Insert(i, "</p>", "</d>", "<d>", "<p>")
			r.GetTree(t2Key).Edit(i, i, nil, 2)
			return true
		}})
	}
	for _, c := range []string{"F", "L"} {
		c := c
		out = append(out, tmpl{"delP@" + c, func(m *model, r *yjson.Object, v int) bool {
			ps := m.t2Paragraphs()
			if len(ps) < 2 {
				return false
			}
			p := ps[0]
			if c == "L" {
				p = ps[len(ps)-1]
			}
			m.t2Delete(p[0], p[1]+1)
			r.GetTree(t2Key).Edit(p[0], p[1]+1, nil, 0)
			return true
		}})
		out = append(out, tmpl{"insP@" + c, func(m *model, r *yjson.Object, v int) bool {
			i, ok := pick(m.t2BetweenParagraphs(), c)
			if !ok {
				return false
			}
			m.t2Insert(i, "<p>", letterOf(v), "</p>")
			r.GetTree(t2Key).Edit(i, i, &yjson.TreeNode{Type: "p", Children: []yjson.TreeNode{{Type: "text", Value: letterOf(v)}}}, 0)
			return true
		}})
		out = append(out, tmpl{"split1betweenP@" + c, func(m *model, r *yjson.Object, v int) bool {
			i, ok := pick(m.t2BetweenParagraphs(), c)
			if !ok {
				return false
			}
			m.t2Insert(i, "</d>", "<d>")
			r.GetTree(t2Key).Edit(i, i, nil, 1)
			return true
		}})
	}
	return out
}

func tree2Family() c07family {
	return c07family{"tree2", tree2Tmpls(), func(m *model, r *yjson.Object) {
		para := func(s string) yjson.TreeNode {
			return yjson.TreeNode{Type: "p", Children: []yjson.TreeNode{{Type: "text", Value: s}}}
		}
		r.SetNewTree(t2Key, yjson.TreeNode{Type: "doc", Children: []yjson.TreeNode{
			{Type: "d", Children: []yjson.TreeNode{para("abc"), para("def")}},
			{Type: "d", Children: []yjson.TreeNode{para("gh")}},
		}})
		m.t2 = strings.Split("<d>|<p>|a|b|c|</p>|<p>|d|e|f|</p>|</d>|<d>|<p>|g|h|</p>|</d>", "|")
	}, func(m *model, d *document.Document) string {
		t := d.Root().GetTree(t2Key)
		if got := t.ToXML(); got != m.t2XML() {
			return fmt.Sprintf("ToXML: real %s model %s", got, m.t2XML())
		}
		if t.Len() != len(m.t2) {
			return fmt.Sprintf("Len: real %d model %d", t.Len(), len(m.t2))
		}
		for idx := 0; idx <= len(m.t2); idx++ {
			tp, err := t.IndexTree.FindTreePos(idx)
			if err != nil {
				return fmt.Sprintf("FindTreePos(%d): %v", idx, err)
			}
			path, err := t.IndexTree.TreePosToPath(tp)
			if err != nil {
				return fmt.Sprintf("TreePosToPath(%d): %v", idx, err)
			}
			back, err := t.IndexTree.PathToIndex(path)
			if err != nil || back != idx {
				return fmt.Sprintf("index %d -> path %v -> index %d (%v)", idx, path, back, err)
			}
		}
		return ""
	}}
}
