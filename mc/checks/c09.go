package checks

import (
	"bytes"
	"context"
	"crypto/sha1"
	"encoding/json"
	"fmt"
	"math"
	"regexp"
	"sort"
	"strings"
	"time"

	"google.golang.org/protobuf/proto"
	"google.golang.org/protobuf/reflect/protoreflect"

	"github.com/yorkie-team/yorkie/api/converter"
	api "github.com/yorkie-team/yorkie/api/yorkie/v1"
	"github.com/yorkie-team/yorkie/pkg/document"
	"github.com/yorkie-team/yorkie/pkg/document/change"
	"github.com/yorkie-team/yorkie/pkg/document/crdt"
	yktime "github.com/yorkie-team/yorkie/pkg/document/time"
	"github.com/yorkie-team/yorkie/server/backend/database"

	"verifmc/hist"
)

// C09: (1) losslessness of every message the system produces during the
// explored histories; (2) deviation-bounded enumeration of hostile inputs
// derived from those messages.

type c09harvest struct {
	packs map[string][]byte // sha -> wire bytes of api.ChangePack
	snaps map[string][]byte // sha -> snapshot bytes
	// mid: snapshots of the replicas taken after every event of a history
	// (before the quiescent closure lets garbage collection remove tombstones
	// and dead array slots); seeds of the hostile phase only
	mid map[string][]byte
	ops map[string][]byte // sha -> encoded operation bytes (ChangeInfo.Operations)
	vvs map[string][]byte
}

func newHarvest() *c09harvest {
	return &c09harvest{packs: map[string][]byte{}, snaps: map[string][]byte{}, mid: map[string][]byte{}, ops: map[string][]byte{}, vvs: map[string][]byte{}}
}

func sha(b []byte) string { h := sha1.Sum(b); return fmt.Sprintf("%x", h[:8]) }

var c09H = newHarvest()

func detMarshal(m proto.Message) []byte {
	b, _ := proto.MarshalOptions{Deterministic: true}.Marshal(m)
	return b
}

// packRoundTrip: From(To(From(pb))) must re-encode to the same bytes as the
// first re-encoding (fixpoint) and both decoded packs must describe the same
// changes.
func packRoundTrip(pb *api.ChangePack) string {
	p1, err := converter.FromChangePack(pb)
	if err != nil {
		return "FromChangePack of a produced pack: " + err.Error()
	}
	pb2, err := converter.ToChangePack(p1)
	if err != nil {
		return "ToChangePack: " + err.Error()
	}
	p2, err := converter.FromChangePack(pb2)
	if err != nil {
		return "FromChangePack(ToChangePack(p)): " + err.Error()
	}
	// Byte equality is not required: element values embedded as bytes are
	// encoded from Go maps, so equal values have several encodings. Identity,
	// clocks, operation kinds and tickets must survive; the meaning of the
	// operations is compared by replaying them (see the ChangeInfo clause).
	if len(pb.Changes) != len(pb2.Changes) {
		return "re-encoded pack has a different number of changes"
	}
	for i := range pb.Changes {
		a, b := pb.Changes[i], pb2.Changes[i]
		if !proto.Equal(a.Id, b.Id) || a.Message != b.Message || len(a.Operations) != len(b.Operations) || !proto.Equal(a.PresenceChange, b.PresenceChange) {
			return fmt.Sprintf("change %d: id/message/operation count/presence changed by the round trip\n  %s\n  %s", i, truncateStr(a.String(), 400), truncateStr(b.String(), 400))
		}
		for j := range a.Operations {
			if fmt.Sprintf("%T", a.Operations[j].Body) != fmt.Sprintf("%T", b.Operations[j].Body) {
				return fmt.Sprintf("change %d operation %d changed its type", i, j)
			}
			if sa, sb := stripValues(a.Operations[j]), stripValues(b.Operations[j]); !bytes.Equal(sa, sb) {
				return fmt.Sprintf("change %d operation %d: fields other than embedded element values changed\n  %s\n  %s", i, j, truncateStr(a.Operations[j].String(), 400), truncateStr(b.Operations[j].String(), 400))
			}
		}
	}
	if !proto.Equal(pb.Checkpoint, pb2.Checkpoint) || !proto.Equal(pb.VersionVector, pb2.VersionVector) || pb.IsRemoved != pb2.IsRemoved || pb.DocumentKey != pb2.DocumentKey {
		return "checkpoint/version vector/removed flag/key changed by the round trip"
	}
	if len(p1.Changes) != len(p2.Changes) || p1.Checkpoint != p2.Checkpoint || p1.IsRemoved != p2.IsRemoved {
		return "decoded packs differ in changes/checkpoint/removed"
	}
	return ""
}

// stripValues serialises an operation with every embedded element value
// (JSONElementSimple.value bytes) blanked.
func stripValues(op *api.Operation) []byte {
	c := proto.Clone(op).(*api.Operation)
	var walk func(m protoreflect.Message)
	walk = func(m protoreflect.Message) {
		m.Range(func(fd protoreflect.FieldDescriptor, v protoreflect.Value) bool {
			switch {
			case fd.IsMap():
				if fd.MapValue().Kind() == protoreflect.MessageKind {
					v.Map().Range(func(_ protoreflect.MapKey, mv protoreflect.Value) bool { walk(mv.Message()); return true })
				}
			case fd.IsList():
				if fd.Kind() == protoreflect.MessageKind {
					for i := 0; i < v.List().Len(); i++ {
						walk(v.List().Get(i).Message())
					}
				}
			case fd.Kind() == protoreflect.MessageKind:
				walk(v.Message())
			case fd.Kind() == protoreflect.BytesKind && m.Descriptor().Name() == "JSONElementSimple" && fd.Name() == "value":
				m.Clear(fd)
			}
			return true
		})
	}
	walk(c.ProtoReflect())
	return detMarshal(c)
}

func snapshotRoundTrip(snap []byte) string {
	obj, pres, err := converter.BytesToSnapshot(snap)
	if err != nil {
		return "BytesToSnapshot of a produced snapshot: " + err.Error()
	}
	var pm map[string]presenceData
	_ = pm
	b2, err := converter.SnapshotToBytes(obj, pres.ToMap())
	if err != nil {
		return "SnapshotToBytes: " + err.Error()
	}
	obj2, pres2, err := converter.BytesToSnapshot(b2)
	if err != nil {
		return "BytesToSnapshot(SnapshotToBytes(d)): " + err.Error()
	}
	if obj.Marshal() != obj2.Marshal() {
		return fmt.Sprintf("snapshot round trip changed content\n  %s\n  %s", obj.Marshal(), obj2.Marshal())
	}
	// Structure: the CRDT metadata a later concurrent change may anchor on
	// (node ids, insPrev links, tombstones, position slots, attribute tickets)
	// must survive decoding. Encoding a decoded snapshot again must give the
	// same message up to the order of object members (those come out of a Go map).
	c1, rm1 := canonSnapshot(snap)
	c2, rm2 := canonSnapshot(b2)
	if c1 != nil && c2 != nil && !bytes.Equal(c1, c2) {
		return "snapshot round trip changed CRDT metadata: " + firstSnapshotDiff(snap, b2)
	}
	for k, r1 := range rm1 {
		if r2 := rm2[k]; r2 != nil && ticketLess(r2, r1) {
			return fmt.Sprintf("snapshot round trip moved the removal ticket of an object member backwards: %s -> %s", r1.String(), r2.String())
		}
	}
	if g1, g2 := crdt.NewRoot(obj).GarbageLen(), crdt.NewRoot(obj2).GarbageLen(); g1 != g2 {
		return fmt.Sprintf("snapshot round trip changed GarbageLen %d -> %d", g1, g2)
	}
	j1, _ := json.Marshal(pres.ToMap())
	j2, _ := json.Marshal(pres2.ToMap())
	if string(j1) != string(j2) {
		return "snapshot round trip changed presences"
	}
	// compressed storage form
	c, err := database.CompressSnapshot(snap)
	if err != nil {
		return "CompressSnapshot: " + err.Error()
	}
	d, err := database.DecompressSnapshot(c)
	if err != nil {
		return "DecompressSnapshot: " + err.Error()
	}
	if !bytes.Equal(d, snap) {
		return "DecompressSnapshot(CompressSnapshot(s)) != s"
	}
	return ""
}

type presenceData = map[string]string

// canonSnapshot re-serialises a snapshot deterministically with the members of
// every JSONObject sorted by (key, created_at). The removal tickets of object
// members are taken out into rm (keyed by the member's created_at) and compared
// separately: decoding re-inserts the members in the order of the message
// (which comes out of a Go map) and re-derives the shadowing, so the tombstone
// ticket of a shadowed member may legitimately become the ticket of a later
// concurrent Set of the same key - replicas that applied those Sets in
// different orders hold different tickets for it anyway. It must never become
// EARLIER (the tombstone would be purged before every peer has seen it).
func canonSnapshot(snap []byte) ([]byte, map[string]*api.TimeTicket) {
	var pb api.Snapshot
	if err := proto.Unmarshal(snap, &pb); err != nil {
		return nil, nil
	}
	rm := map[string]*api.TimeTicket{}
	canonElement(pb.Root, rm)
	return detMarshal(&pb), rm
}

func elemTickets(e *api.JSONElement) (created *api.TimeTicket, removed, moved **api.TimeTicket) {
	switch b := e.GetBody().(type) {
	case *api.JSONElement_JsonObject:
		return b.JsonObject.CreatedAt, &b.JsonObject.RemovedAt, &b.JsonObject.MovedAt
	case *api.JSONElement_JsonArray:
		return b.JsonArray.CreatedAt, &b.JsonArray.RemovedAt, &b.JsonArray.MovedAt
	case *api.JSONElement_Primitive_:
		return b.Primitive.CreatedAt, &b.Primitive.RemovedAt, &b.Primitive.MovedAt
	case *api.JSONElement_Text_:
		return b.Text.CreatedAt, &b.Text.RemovedAt, &b.Text.MovedAt
	case *api.JSONElement_Counter_:
		return b.Counter.CreatedAt, &b.Counter.RemovedAt, &b.Counter.MovedAt
	case *api.JSONElement_Tree_:
		return b.Tree.CreatedAt, &b.Tree.RemovedAt, &b.Tree.MovedAt
	}
	return nil, nil, nil
}

func canonElement(e *api.JSONElement, rm map[string]*api.TimeTicket) {
	if e == nil {
		return
	}
	switch b := e.Body.(type) {
	case *api.JSONElement_JsonObject:
		for _, n := range b.JsonObject.Nodes {
			canonElement(n.Element, rm)
			c, r, mv := elemTickets(n.Element)
			if r != nil && *r != nil {
				rm[string(detMarshal(c))] = *r
				*r = &api.TimeTicket{} // "removed", ticket compared separately
			}
			// decoding an object stamps every member with movedAt = its positionedAt,
			// which is createdAt for a member that never moved: same meaning as none
			if mv != nil && *mv != nil && proto.Equal(*mv, c) {
				*mv = nil
			}
		}
		sort.SliceStable(b.JsonObject.Nodes, func(i, j int) bool {
			ni, nj := b.JsonObject.Nodes[i], b.JsonObject.Nodes[j]
			if ni.Key != nj.Key {
				return ni.Key < nj.Key
			}
			ci, _, _ := elemTickets(ni.Element)
			cj, _, _ := elemTickets(nj.Element)
			return bytes.Compare(detMarshal(ci), detMarshal(cj)) < 0
		})
	case *api.JSONElement_JsonArray:
		for _, n := range b.JsonArray.Nodes {
			for m := n; m != nil; m = m.Next {
				canonElement(m.Element, rm)
			}
		}
	}
}

func ticketLess(a, b *api.TimeTicket) bool {
	if a.GetLamport() != b.GetLamport() {
		return a.GetLamport() < b.GetLamport()
	}
	if c := bytes.Compare(a.GetActorId(), b.GetActorId()); c != 0 {
		return c < 0
	}
	return a.GetDelimiter() < b.GetDelimiter()
}

// firstSnapshotDiff names the first element whose canonical encodings differ.
func firstSnapshotDiff(s1, s2 []byte) string {
	var p1, p2 api.Snapshot
	_ = proto.Unmarshal(s1, &p1)
	_ = proto.Unmarshal(s2, &p2)
	canonElement(p1.Root, map[string]*api.TimeTicket{})
	canonElement(p2.Root, map[string]*api.TimeTicket{})
	var walk func(path string, a, b *api.JSONElement) string
	walk = func(path string, a, b *api.JSONElement) string {
		if bytes.Equal(detMarshal(a), detMarshal(b)) {
			return ""
		}
		if oa, ok := a.GetBody().(*api.JSONElement_JsonObject); ok {
			if ob, ok := b.GetBody().(*api.JSONElement_JsonObject); ok && len(oa.JsonObject.Nodes) == len(ob.JsonObject.Nodes) {
				for i := range oa.JsonObject.Nodes {
					if d := walk(path+"."+oa.JsonObject.Nodes[i].Key, oa.JsonObject.Nodes[i].Element, ob.JsonObject.Nodes[i].Element); d != "" {
						return d
					}
				}
			}
		}
		if ta, ok := a.GetBody().(*api.JSONElement_Text_); ok {
			if tb, ok := b.GetBody().(*api.JSONElement_Text_); ok && len(ta.Text.Nodes) == len(tb.Text.Nodes) {
				for i := range ta.Text.Nodes {
					if !bytes.Equal(detMarshal(ta.Text.Nodes[i]), detMarshal(tb.Text.Nodes[i])) {
						return fmt.Sprintf("%s text node %d\n  before: %s\n  after:  %s", path, i, truncateStr(ta.Text.Nodes[i].String(), 300), truncateStr(tb.Text.Nodes[i].String(), 300))
					}
				}
			}
		}
		if ta, ok := a.GetBody().(*api.JSONElement_Tree_); ok {
			if tb, ok := b.GetBody().(*api.JSONElement_Tree_); ok && len(ta.Tree.Nodes) == len(tb.Tree.Nodes) {
				for i := range ta.Tree.Nodes {
					if !bytes.Equal(detMarshal(ta.Tree.Nodes[i]), detMarshal(tb.Tree.Nodes[i])) {
						return fmt.Sprintf("%s tree node %d\n  before: %s\n  after:  %s", path, i, truncateStr(ta.Tree.Nodes[i].String(), 300), truncateStr(tb.Tree.Nodes[i].String(), 300))
					}
				}
			}
		}
		return fmt.Sprintf("%s\n  before: %s\n  after:  %s", path, truncateStr(a.String(), 400), truncateStr(b.String(), 400))
	}
	return walk("root", p1.Root, p2.Root)
}

// c09Exec checks everything one execution produced.
func c09Exec(x *hist.Exec, rpcs []*hist.RPC, res *Result) {
	add := func(kind, detail string) {
		x.Viol = append(x.Viol, hist.Violation{Kind: "encoding-lossy", Sig: "encoding-lossy:" + kind + ":" + hist.NormErr(firstLineOf(detail)), Detail: detail})
	}
	for _, rpc := range rpcs {
		for _, pb := range []*api.ChangePack{rpc.Req, rpc.Resp} {
			if pb == nil {
				continue
			}
			raw := detMarshal(pb)
			k := sha(raw)
			if _, seen := c09H.packs[k]; seen {
				continue
			}
			c09H.packs[k] = raw
			if res != nil {
				res.Count("distinct_change_packs", 1)
				for _, c := range pb.Changes {
					for _, op := range c.Operations {
						if op.Body != nil {
							res.Outcome("op:" + fmt.Sprintf("%T", op.Body))
						}
					}
				}
			}
			if d := packRoundTrip(pb); d != "" {
				add("changepack", d)
				return
			}
			if len(pb.Snapshot) > 0 {
				ks := sha(pb.Snapshot)
				if _, seen := c09H.snaps[ks]; !seen {
					c09H.snaps[ks] = pb.Snapshot
					if res != nil {
						res.Count("distinct_snapshots", 1)
					}
					if d := snapshotRoundTrip(pb.Snapshot); d != "" {
						add("snapshot", d)
						return
					}
				}
			}
			if pb.VersionVector != nil {
				if vv, err := converter.FromVersionVector(pb.VersionVector); err == nil {
					b, err := vv.Bytes()
					if err != nil {
						add("vv", "VersionVector.Bytes: "+err.Error())
						return
					}
					c09H.vvs[sha(b)] = b
					vv2, err := yktime.VersionVectorFromBytes(b)
					if err != nil || !vv.Equal(vv2) {
						add("vv", fmt.Sprintf("VersionVectorFromBytes(Bytes(vv)) != vv (%v)", err))
						return
					}
				}
			}
		}
	}
	if x.Aborted {
		return
	}
	// stored ChangeInfo: decode -> re-encode -> decode, and apply both to fresh replicas
	di, err := x.DocInfo()
	if err != nil {
		return
	}
	infos, err := x.R.W.BE.DB.FindChangeInfosBetweenServerSeqs(context.Background(), di.RefKey(), 1, math.MaxInt64)
	if err != nil {
		return
	}
	direct := document.NewInternalDocument(x.DocKey)
	viaRT := document.NewInternalDocument(x.DocKey)
	for _, ci := range infos {
		for _, ob := range ci.Operations {
			c09H.ops[sha(ob)] = ob
		}
		c1, err := ci.ToChange()
		if err != nil {
			add("changeinfo", "ToChange of a stored change: "+err.Error())
			return
		}
		ci2, err := database.NewFromChange(di.RefKey(), c1)
		if err != nil {
			add("changeinfo", "NewFromChange: "+err.Error())
			return
		}
		if len(ci2.Operations) != len(ci.Operations) {
			add("changeinfo", "operation count changed by re-encoding")
			return
		}
		for i := range ci.Operations {
			if !bytes.Equal(ci.Operations[i], ci2.Operations[i]) {
				var o1, o2 api.Operation
				_ = proto.Unmarshal(ci.Operations[i], &o1)
				_ = proto.Unmarshal(ci2.Operations[i], &o2)
				if !bytes.Equal(stripValues(&o1), stripValues(&o2)) {
					add("changeinfo", fmt.Sprintf("stored operation re-encodes differently\n  %s\n  %s", truncateStr(o1.String(), 400), truncateStr(o2.String(), 400)))
					return
				}
			}
		}
		ci2.ServerSeq, ci2.ClientSeq, ci2.ActorID = ci.ServerSeq, ci.ClientSeq, ci.ActorID
		c2, err := ci2.ToChange()
		if err != nil {
			add("changeinfo", "ToChange(NewFromChange(c)): "+err.Error())
			return
		}
		e1, _ := hist.Guard(func() error {
			return direct.ApplyChangePack(change.NewPack(x.DocKey, change.InitialCheckpoint.NextServerSeq(ci.ServerSeq), []*change.Change{c1}, nil, nil), true)
		})
		e2, _ := hist.Guard(func() error {
			return viaRT.ApplyChangePack(change.NewPack(x.DocKey, change.InitialCheckpoint.NextServerSeq(ci.ServerSeq), []*change.Change{c2}, nil, nil), true)
		})
		if (e1 == nil) != (e2 == nil) {
			add("changeinfo", fmt.Sprintf("applying the re-encoded change: %v vs %v", e1, e2))
			return
		}
		if e1 != nil {
			return // not this property's concern
		}
	}
	if direct.Marshal() != viaRT.Marshal() || direct.GarbageLen() != viaRT.GarbageLen() || !direct.VersionVector().Equal(viaRT.VersionVector()) {
		add("changeinfo", fmt.Sprintf("replica fed with re-encoded changes differs\n  direct: %s (garbage %d)\n  re-enc: %s (garbage %d)",
			direct.Marshal(), direct.GarbageLen(), viaRT.Marshal(), viaRT.GarbageLen()))
		return
	}
	// every replica's document survives the snapshot encoding
	for _, rep := range x.AttachedReps() {
		b, err := converter.SnapshotToBytes(rep.Doc.RootObject(), rep.Doc.AllPresences())
		if err != nil {
			add("snapshot", "SnapshotToBytes(replica): "+err.Error())
			return
		}
		ks := sha(b)
		if _, seen := c09H.snaps[ks]; seen {
			continue
		}
		c09H.snaps[ks] = b
		if res != nil {
			res.Count("distinct_snapshots", 1)
		}
		obj, _, err := converter.BytesToSnapshot(b)
		if err != nil {
			add("snapshot", "BytesToSnapshot(SnapshotToBytes(replica)): "+err.Error())
			return
		}
		if obj.Marshal() != rep.Doc.Marshal() {
			add("snapshot", fmt.Sprintf("snapshot of a replica decodes to different content\n  %s\n  %s", rep.Doc.Marshal(), obj.Marshal()))
			return
		}
		if g := crdt.NewRoot(obj).GarbageLen(); g != rep.Doc.GarbageLen() {
			x.Viol = append(x.Viol, hist.Violation{Kind: "encoding-lossy", Sig: "encoding-lossy:snapshot:GarbageLen of a replica is not kept",
				Detail: fmt.Sprintf("snapshot of a replica changes GarbageLen %d -> %d (content %s)", rep.Doc.GarbageLen(), g, rep.Doc.Marshal())})
			return
		}
		if d := snapshotRoundTrip(b); d != "" {
			add("snapshot", d)
			return
		}
	}
}

var c09HSpec = &HSpec{ID: "C09",
	Scenarios: func(tier string) []*hist.Scenario {
		var out []*hist.Scenario
		fams := coreFamilies()
		if tier == "thorough" {
			fams = families()
		}
		for _, f := range fams {
			for _, al := range pairs(f.ops) {
				if tier == "quick" && len(al) == 2 {
					continue
				}
				out = append(out, &hist.Scenario{Name: fmt.Sprintf("c09/%s/%s/N2K2U1Y2", f.name, strings.Join(al, "+")),
					N: 2, Init: f.init, Alphabet: al, K: 2, U: 1, Y: 2, Cfg: hist.Config{Threshold: hist.Big, Interval: hist.Big}})
				if len(al) == 1 {
					out = append(out, &hist.Scenario{Name: fmt.Sprintf("c09/%s/%s/snap1-1/N1L1K2Y2", f.name, al[0]),
						N: 1, Late: 1, Init: f.init, Alphabet: al, K: 2, Y: 2, Cfg: hist.Config{Threshold: 1, Interval: 1}})
				}
			}
		}
		out = append(out, &hist.Scenario{Name: "c09/presence/N2K2Y2", N: 2, Init: []string{"init.o"}, Alphabet: presOps, K: 2, Y: 2, InitialPresence: true,
			Cfg: hist.Config{Threshold: hist.Big, Interval: hist.Big}})
		// the C19 operations (splits, merges, styles) produce the remaining operation fields
		for _, m := range c19Matrices() {
			var al []string
			for _, op := range m.ops1 {
				al = append(al, c19OpName(m.name, 0, 0, op.desc))
			}
			for _, op := range m.ops2 {
				al = append(al, c19OpName(m.name, 0, 1, op.desc))
			}
			out = append(out, &hist.Scenario{Name: "c09/tree-" + m.name + "/N2K2U1Y1", N: 2, Init: []string{"c19.init." + m.name}, Alphabet: al, K: 2, U: 1, Y: 1,
				Cfg: hist.Config{Threshold: hist.Big, Interval: hist.Big}})
		}
		return out
	},
	Eval: func(r *hist.Runner, sc *hist.Scenario, h []hist.Event, res *Result) ([]hist.Violation, bool) {
		var rpcs []*hist.RPC
		r.Prepare = func(x *hist.Exec) { x.OnRPC = func(rpc *hist.RPC) { rpcs = append(rpcs, rpc) } }
		r.AfterEvent = []func(x *hist.Exec, i int){func(x *hist.Exec, i int) {
			if i != len(x.Hist)-1 {
				return // every prefix is a history of its own: its last event is enough
			}
			for _, rep := range x.AttachedReps() {
				if b, err := converter.SnapshotToBytes(rep.Doc.RootObject(), rep.Doc.AllPresences()); err == nil {
					c09H.mid[shapeKeyOfSnapshot(b)] = b
				}
			}
		}}
		x := r.Run(sc, sc.Cfg, h)
		r.Prepare = nil
		r.AfterEvent = nil
		defer x.Close()
		if n := len(x.Steps); n > 0 && x.Steps[n-1].NoEffect {
			return nil, true
		}
		x.Quiesce()
		c09Exec(x, rpcs, res)
		var viol []hist.Violation
		for _, v := range x.Viol {
			if v.Kind == "encoding-lossy" || v.Kind == "harness" {
				viol = append(viol, v)
			}
		}
		return viol, false
	},
}

// shapeKeyOfSnapshot keys a mid-history snapshot by its shape, so that the map
// keeps one (the latest) message per shape instead of one per execution.
func shapeKeyOfSnapshot(b []byte) string {
	var m api.Snapshot
	if proto.Unmarshal(b, &m) != nil {
		return sha(b)
	}
	return sha([]byte(shapeOf(m.ProtoReflect())))
}

// ------------------------------------------------------------- hostile

// shapeOf renders the structure of a message without scalar values.
func shapeOf(m protoreflect.Message) string {
	var sb strings.Builder
	var fields []protoreflect.FieldDescriptor
	m.Range(func(fd protoreflect.FieldDescriptor, _ protoreflect.Value) bool {
		fields = append(fields, fd)
		return true
	})
	sort.Slice(fields, func(i, j int) bool { return fields[i].Number() < fields[j].Number() })
	sb.WriteString("{")
	for _, fd := range fields {
		v := m.Get(fd)
		sb.WriteString(string(fd.Name()))
		switch {
		case fd.IsMap():
			fmt.Fprintf(&sb, "#%d", min(v.Map().Len(), 2))
			if fd.MapValue().Kind() == protoreflect.MessageKind {
				var inner []string
				v.Map().Range(func(_ protoreflect.MapKey, mv protoreflect.Value) bool {
					inner = append(inner, shapeOf(mv.Message()))
					return true
				})
				sort.Strings(inner)
				if len(inner) > 0 {
					sb.WriteString(inner[0])
				}
			}
		case fd.IsList():
			fmt.Fprintf(&sb, "[%d]", min(v.List().Len(), 3))
			if fd.Kind() == protoreflect.MessageKind {
				for i := 0; i < v.List().Len() && i < 3; i++ {
					sb.WriteString(shapeOf(v.List().Get(i).Message()))
				}
			}
		case fd.Kind() == protoreflect.MessageKind:
			sb.WriteString(shapeOf(v.Message()))
		case fd.Kind() == protoreflect.EnumKind:
			fmt.Fprintf(&sb, "=%d", v.Enum())
		case fd.Kind() == protoreflect.BytesKind:
			if fd.Name() == "value" || fd.Name() == "snapshot" {
				fmt.Fprintf(&sb, "~%d", min(len(v.Bytes()), 4))
			}
		}
		sb.WriteString(",")
	}
	sb.WriteString("}")
	return sb.String()
}

// panicSite extracts the innermost frame of the code under test from a stack dump.
// panicChain names a panic by the innermost n frames of the code under test
// (function names only): the dereference AND who handed it the bad value.
func panicChain(stack string, n int) string {
	lines := strings.Split(stack, "\n")
	seenPanic := false
	var fns []string
	for _, l := range lines {
		if strings.HasPrefix(l, "panic(") {
			seenPanic = true
			continue
		}
		if seenPanic && strings.Contains(l, "github.com/yorkie-team/yorkie/") && !strings.HasPrefix(l, "\t") {
			fn := l
			if j := strings.LastIndex(fn, "("); j > 0 {
				fn = fn[:j]
			}
			if j := strings.LastIndex(fn, "/"); j >= 0 {
				fn = fn[j+1:]
			}
			fns = append(fns, fn)
			if len(fns) == n {
				break
			}
		}
	}
	if len(fns) == 0 {
		return "?"
	}
	return strings.Join(fns, " <- ")
}

var reMutIdx = regexp.MustCompile(`\[[^\]]*\]`)

// mutClass names the deviation that produced a hostile input: the last two
// field names of the mutated path and the mutation kind ("nodes.position_created_at:clear"),
// or "wire-damage" for truncations and byte deletions.
func mutClass(desc string) string {
	i := strings.Index(desc, " .")
	if i < 0 {
		return "wire-damage"
	}
	path := reMutIdx.ReplaceAllString(desc[i+1:], "")
	segs := strings.Split(strings.TrimPrefix(path, "."), ".")
	if len(segs) > 2 {
		segs = segs[len(segs)-2:]
	}
	return strings.Join(segs, ".")
}

func panicSite(stack string) string {
	lines := strings.Split(stack, "\n")
	seenPanic := false
	for i, l := range lines {
		if strings.HasPrefix(l, "panic(") {
			seenPanic = true
			continue
		}
		if seenPanic && strings.Contains(l, "github.com/yorkie-team/yorkie/") && !strings.HasPrefix(l, "\t") {
			fn := l
			if j := strings.LastIndex(fn, "("); j > 0 {
				fn = fn[:j]
			}
			if j := strings.LastIndex(fn, "/"); j >= 0 {
				fn = fn[j+1:]
			}
			loc := ""
			if i+1 < len(lines) {
				loc = strings.TrimSpace(lines[i+1])
				if j := strings.Index(loc, " +0x"); j > 0 {
					loc = loc[:j]
				}
				if j := strings.LastIndex(loc, "/"); j >= 0 {
					loc = loc[j+1:]
				}
			}
			return fn + " (" + loc + ")"
		}
	}
	return "?"
}

// hostileTargets feeds one input to every decoder that accepts this kind.
func hostilePack(b []byte) (string, bool) {
	var out string
	err, panicked := hist.Guard(func() error {
		var pb api.ChangePack
		if proto.Unmarshal(b, &pb) != nil {
			return nil
		}
		p, err := converter.FromChangePack(&pb)
		if err != nil || p == nil {
			return nil
		}
		// a pack the decoder accepts is then handled by the server: validate what it does next
		for _, c := range p.Changes {
			if _, e := database.NewFromChange(dummyRef, c); e != nil {
				_ = e
			}
		}
		if len(p.Snapshot) > 0 {
			_, _, _ = converter.BytesToSnapshot(p.Snapshot)
		}
		return nil
	})
	if panicked {
		out = firstLineOf(err.Error()) + " at " + panicChain(err.Error(), 3)
	}
	return out, panicked
}

func hostileSnapshot(b []byte) (string, bool) {
	var out string
	err, panicked := hist.Guard(func() error {
		if obj, _, e := converter.BytesToSnapshot(b); e == nil && obj != nil {
			_ = obj.Marshal()
			_ = crdt.NewRoot(obj).GarbageLen()
			if _, e := converter.SnapshotToBytes(obj, nil); e != nil {
				_ = e
			}
		}
		_, _ = converter.BytesToObject(b)
		_, _ = converter.BytesToArray(b)
		_, _ = converter.BytesToTree(b)
		_, _ = database.DecompressSnapshot(b)
		_, _ = yktime.VersionVectorFromBytes(b)
		return nil
	})
	if panicked {
		out = firstLineOf(err.Error()) + " at " + panicChain(err.Error(), 3)
	}
	return out, panicked
}

func hostileOp(b []byte) (string, bool) {
	var out string
	err, panicked := hist.Guard(func() error {
		ci := &database.ChangeInfo{ServerSeq: 1, ClientSeq: 1, Lamport: 1, ActorID: "000000000000000000000001", Operations: [][]byte{b}}
		if c, e := ci.ToChange(); e == nil && c != nil {
			d := document.NewInternalDocument("c09-hostile")
			_ = d.ApplyChangePack(change.NewPack("c09-hostile", change.InitialCheckpoint.NextServerSeq(1), []*change.Change{c}, nil, nil), true)
		}
		return nil
	})
	if panicked {
		out = firstLineOf(err.Error()) + " at " + panicChain(err.Error(), 3)
	}
	return out, panicked
}

var dummyRef = typesDocRef()

type c09case struct {
	Kind string `json:"kind"` // pack snapshot op
	Desc string `json:"desc"`
	Hex  string `json:"hex"`
}

func c09Hostile(env *Env, res *Result) {
	type seed struct {
		kind string
		b    []byte
	}
	var seeds []seed
	// One seed per distinct SHAPE (which fields are present, list lengths,
	// oneof arms; scalar values ignored): ids and keys differ from run to run,
	// shapes do not, so the selection is deterministic.
	collect := func(kind string, m map[string][]byte, limit int) {
		byShape := map[string][]byte{}
		for _, b := range m {
			var msg proto.Message
			switch kind {
			case "pack":
				msg = &api.ChangePack{}
			case "snapshot":
				msg = &api.Snapshot{}
			case "op":
				msg = &api.Operation{}
			}
			if kind == "vv" || proto.Unmarshal(b, msg) != nil {
				byShape[fmt.Sprint("raw", len(b))] = b
				continue
			}
			sh := shapeOf(msg.ProtoReflect())
			if old, ok := byShape[sh]; !ok || len(b) < len(old) || (len(b) == len(old) && bytes.Compare(b, old) < 0) {
				byShape[sh] = b
			}
		}
		var shapes []string
		for sh := range byShape {
			shapes = append(shapes, sh)
		}
		sort.Slice(shapes, func(i, j int) bool {
			if len(shapes[i]) != len(shapes[j]) {
				return len(shapes[i]) < len(shapes[j])
			}
			return shapes[i] < shapes[j]
		})
		// the smallest `limit` shapes, plus - whatever their size - every message
		// that shows a LOCAL shape (message type + set of present fields) none of
		// the messages picked so far shows: every kind of node the encoders can
		// produce gets its fields mutated at least once (seeded change C09-3: the
		// guard of a dead array slot, which only larger snapshots contain)
		picked := map[string]bool{}
		covered := map[string]bool{}
		cover := func(sh string) map[string]bool {
			ls := map[string]bool{}
			var msg proto.Message
			switch kind {
			case "pack":
				msg = &api.ChangePack{}
			case "snapshot":
				msg = &api.Snapshot{}
			case "op":
				msg = &api.Operation{}
			default:
				return ls
			}
			if proto.Unmarshal(byShape[sh], msg) == nil {
				localShapes(msg.ProtoReflect(), ls)
			}
			return ls
		}
		for i, sh := range shapes {
			ls := cover(sh)
			fresh := false
			for l := range ls {
				if !covered[l] {
					fresh = true
				}
			}
			if i < limit || fresh {
				picked[sh] = true
				for l := range ls {
					covered[l] = true
				}
			}
		}
		k := kind
		if k == "vv" {
			k = "snapshot"
		}
		for _, sh := range shapes {
			if picked[sh] {
				seeds = append(seeds, seed{k, byShape[sh]})
			}
		}
		res.Count("local_shapes_covered:"+kind, len(covered))
	}
	limit := 150
	if env.Tier == "thorough" {
		limit = 1000
	}
	collect("pack", c09H.packs, limit)
	collect("snapshot", c09H.snaps, limit)
	collect("snapshot", c09H.mid, limit)
	collect("op", c09H.ops, limit)
	collect("vv", c09H.vvs, 5)
	feed := func(kind string, b []byte, desc string) {
		res.Evaluations++
		res.Nontrivial++
		if res.Evaluations%512 == 0 {
			raw, _ := json.Marshal(c09case{Kind: kind, Desc: desc, Hex: fmt.Sprintf("%x", b)})
			env.Current(&Found{Property: "C09", Case: raw})
		}
		var msg string
		var bad bool
		switch kind {
		case "pack":
			msg, bad = hostilePack(b)
		case "snapshot":
			msg, bad = hostileSnapshot(b)
		case "op":
			msg, bad = hostileOp(b)
		}
		if bad {
			raw, _ := json.Marshal(c09case{Kind: kind, Desc: desc, Hex: fmt.Sprintf("%x", b)})
			res.AddFound(Found{Property: "C09", Kind: "decoder-panic", Sig: "decoder-panic:" + kind, Detail: desc + "\n" + msg, Case: raw,
				Core: "decoder-panic|" + kind + "|" + hist.NormErr(msg) + "|" + mutClass(desc)})
		}
	}
	for si, sd := range seeds {
		if env.Expired() {
			res.Incomplete = append(res.Incomplete, "c09/hostile")
			return
		}
		// every prefix truncation and every single-byte deletion of the wire form
		for n := 0; n < len(sd.b); n++ {
			feed(sd.kind, sd.b[:n], fmt.Sprintf("seed %d truncated to %d bytes", si, n))
			del := append(append([]byte{}, sd.b[:n]...), sd.b[n+1:]...)
			feed(sd.kind, del, fmt.Sprintf("seed %d byte %d deleted", si, n))
		}
		// every single structural mutation
		var m proto.Message
		switch sd.kind {
		case "pack":
			m = &api.ChangePack{}
		case "snapshot":
			m = &api.Snapshot{}
		case "op":
			m = &api.Operation{}
		}
		if proto.Unmarshal(sd.b, m) != nil {
			continue
		}
		structuralMutations(m, func(mut proto.Message, desc string) {
			b, err := proto.Marshal(mut)
			if err != nil {
				return
			}
			res.Outcome("mut:" + sd.kind + ":" + lastSeg(desc))
			feed(sd.kind, b, fmt.Sprintf("seed %d %s", si, desc))
		})
	}
	res.Completed = append(res.Completed, fmt.Sprintf("c09/hostile/%d-seeds", len(seeds)))
	res.Count("hostile_seeds", len(seeds))
}

func lastSeg(d string) string {
	if i := strings.LastIndex(d, "."); i >= 0 {
		return d[i+1:]
	}
	return d
}

func c09Run(env *Env) *Result {
	c09H = newHarvest()
	res := RunH(c09HSpec, env)
	// the hostile phase works on what THIS worker harvested (distinct per shard)
	if !env.Expired() {
		c09Hostile(env, res)
	} else {
		res.Incomplete = append(res.Incomplete, "c09/hostile")
	}
	return res
}

func init() {
	register(&Check{
		ID:    "C09",
		Level: "exploration",
		Rule: "(1) lossless: every distinct change pack sent or received, every snapshot pulled, every version vector and every stored ChangeInfo of all normal-form histories of the scenario list " +
			"(every edit kind of every data type incl. undo/redo, presence, snapshots at threshold 1, and the C19 split/merge/style operations) is round-tripped: " +
			"ToChangePack(FromChangePack(pb)) == pb and a fixpoint; BytesToSnapshot(SnapshotToBytes(d)) keeps Marshal, GarbageLen and presences, also for every replica's document; compress/decompress; VersionVector bytes; " +
			"stored operations re-encode identically and a fresh replica fed with the re-encoded log equals one fed with the original (content, GarbageLen, version vector); " +
			"(2) hostile: for the harvested messages (spread over sizes, per worker) EVERY byte-prefix truncation, EVERY single-byte deletion and EVERY single structural mutation " +
			"(clear field, empty message, empty/first-only/extra-empty list, empty map/nil map value, bytes of length 0/1/11/12/13, empty/garbage string, ints 0/-1/min/max, unknown enum) is fed to " +
			"FromChangePack(+NewFromChange, BytesToSnapshot), BytesToSnapshot/Object/Array/Tree(+Marshal, GarbageLen, re-encode), DecompressSnapshot, VersionVectorFromBytes, ChangeInfo.ToChange(+apply to a document): no panic; " +
			"non-trivial = all decoder inputs; distinct outcomes = operation types and mutation kinds seen",
		Assume:      []string{"decoders are called directly (the same functions the RPC handlers and the database layer call)", "single deviations only (pairs of mutations are not enumerated)"},
		QuickBudget: 300 * time.Second,
		Run:         c09Run,
		Reproduce: func(f *Found) (bool, error) {
			if f.Hist != nil {
				c09H = newHarvest()
				return ReproduceH(c09HSpec)(f)
			}
			var c c09case
			if err := json.Unmarshal(f.Case, &c); err != nil {
				return false, err
			}
			var b []byte
			fmt.Sscanf(c.Hex, "%x", &b)
			var bad bool
			switch c.Kind {
			case "pack":
				_, bad = hostilePack(b)
			case "snapshot":
				_, bad = hostileSnapshot(b)
			case "op":
				_, bad = hostileOp(b)
			}
			return bad, nil
		},
		Minimise: func(f *Found) *Found {
			if f.Hist != nil {
				c09H = newHarvest()
				return MinimiseH(c09HSpec)(f)
			}
			return f
		},
	})
	_ = time.Second
}
