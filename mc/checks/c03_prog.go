package checks

import (
	"encoding/json"
	"fmt"
	"strings"
	"unicode/utf16"

	"github.com/yorkie-team/yorkie/pkg/document"
	yjson "github.com/yorkie-team/yorkie/pkg/document/json"
	"github.com/yorkie-team/yorkie/pkg/key"
)

// C03, single-replica part: ALL programs of calls of the public editing API
// (the C07 templates: every call kind x position class of a data type) with
// garbage collections placed between them, executed twice on real documents:
// once with the collections (GarbageCollect with the document's own version
// vector - on a replica without peers that vector is the minimum vector, so
// every tombstone is purged) and once without. After every call: the call
// fails in one twin iff it fails in the other, the content is identical, the
// index/path view agrees with the reference model in one iff in the other, and
// Root() == Marshal(). This reaches programs of 4-5 calls (the multi-client
// histories of Engine H reach 2-3 edits), i.e. the clause "purging never
// changes what users see and never makes a later edit fail" for editing
// sessions that keep working on the remains of purged structure.

const c03GC = "gc"

// c03LastClass is set by c03RunProgram when the disagreement it returns is an
// instance of a condition the reference model tracks (used only to identify
// known findings): a set-by-index on an element that was moved before - the
// known ArraySet defect anchors on the element's original slot, which exists
// without collection and is gone with it.
var c03LastClass string

type c03pcase struct {
	Family  string   `json:"family"`
	Program []string `json:"program"` // template names and "gc"
}

// c03RunProgram returns a description of the first disagreement ("" = none)
// and whether the program was applicable to its end.
func c03RunProgram(f *c07family, names []string) (string, bool) {
	byName := map[string]*tmpl{}
	for i := range f.tm {
		byName[f.tm[i].name] = &f.tm[i]
	}
	mk := func() (*document.Document, *model) {
		d := document.New(key.Key("c03-doc"))
		m := newModel()
		_ = d.Update(func(r *yjson.Object, p *document.Presence) error { f.setup(m, r); return nil })
		return d, m
	}
	c03LastClass = ""
	dG, mG := mk() // with collections
	dN, mN := mk() // never collects
	apply := func(d *document.Document, m *model, t *tmpl, v int) (ok bool, failure string) {
		var panicMsg string
		err := func() (err error) {
			defer func() {
				if r := recover(); r != nil {
					panicMsg = fmt.Sprint(r)
				}
			}()
			return d.Update(func(r *yjson.Object, p *document.Presence) error {
				ok = t.do(m, r, v)
				return nil
			})
		}()
		if panicMsg != "" {
			return ok, "panic: " + panicMsg
		}
		if err != nil {
			return ok, "error: " + err.Error()
		}
		return ok, ""
	}
	for step, nme := range names {
		if nme == c03GC {
			var panicMsg string
			func() {
				defer func() {
					if r := recover(); r != nil {
						panicMsg = fmt.Sprint(r)
					}
				}()
				dG.GarbageCollect(dG.VersionVector())
			}()
			if panicMsg != "" {
				return fmt.Sprintf("step %d (gc): GarbageCollect panics: %s", step, panicMsg), true
			}
			if dG.GarbageLen() != 0 {
				return fmt.Sprintf("step %d (gc): GarbageLen is %d after collecting with the document's own vector", step, dG.GarbageLen()), true
			}
		} else {
			t := byName[nme]
			if t == nil {
				return "unknown template " + nme, true
			}
			okG, failG := apply(dG, mG, t, 10+step)
			okN, failN := apply(dN, mN, t, 10+step)
			if failN != "" {
				return "", false // fails without any collection too: not this property's concern
			}
			if failG != "" {
				return fmt.Sprintf("step %d (%s): the call fails after garbage collection (%s) and succeeds without", step, nme, failG), true
			}
			if !okN || !okG {
				if okN != okG {
					return fmt.Sprintf("step %d (%s): applicable=%v with collection, %v without", step, nme, okG, okN), true
				}
				return "", false
			}
		}
		if a, b := dG.Marshal(), dN.Marshal(); a != b {
			if f.name == "arr" && strings.HasPrefix(nme, "set") && mN.lastSetOnMoved {
				c03LastClass = "set-by-index-on-previously-moved-element"
			}
			return fmt.Sprintf("step %d (%s): content differs\n  with collection:    %s\n  without collection: %s", step, nme, a, b), true
		}
		if a, b := dG.Root().Marshal(), dG.Marshal(); a != b {
			return fmt.Sprintf("step %d (%s): Root() %s != Marshal() %s on the collecting replica", step, nme, a, b), true
		}
		cG, cN := f.cmp(mG, dG), f.cmp(mN, dN)
		if cG != "" && cN == "" {
			return fmt.Sprintf("step %d (%s): index/path view wrong only on the collecting replica: %s", step, nme, cG), true
		}
	}
	return "", true
}

// treeRunFamily: editing sessions inside ONE text run of a tree (the C07 tree
// templates work on two 2-character paragraphs, too short for chains of split
// pieces): <doc><p>abcdef</p></doc>, inserts at 0, 1/4, 1/2, 3/4 and the end,
// deletions of one character at those places and of the head half, the tail
// half and the middle half. Positions are computed from the reference model.
func treeRunFamily() c07family {
	pos := func(n int, c string) int {
		switch c {
		case "0":
			return 0
		case "q":
			return n / 4
		case "m":
			return n / 2
		case "t":
			return (3 * n) / 4
		default:
			return n
		}
	}
	var tm []tmpl
	for _, c := range []string{"0", "q", "m", "t", "e"} {
		c := c
		tm = append(tm, tmpl{"ins@" + c, func(m *model, r *yjson.Object, v int) bool {
			if len(m.tree) == 0 {
				return false
			}
			t := m.tree[0].text
			o := pos(len(t), c)
			u := utf16.Encode([]rune(letterOf(v)))
			m.tree[0].text = append(append(append([]uint16{}, t[:o]...), u...), t[o:]...)
			r.GetTree("tr").EditByPath([]int{0, o}, []int{0, o}, &yjson.TreeNode{Type: "text", Value: letterOf(v)}, 0)
			return true
		}})
		tm = append(tm, tmpl{"del1@" + c, func(m *model, r *yjson.Object, v int) bool {
			if len(m.tree) == 0 || len(m.tree[0].text) == 0 {
				return false
			}
			t := m.tree[0].text
			o := pos(len(t), c)
			if o >= len(t) {
				o = len(t) - 1
			}
			m.tree[0].text = append(append([]uint16{}, t[:o]...), t[o+1:]...)
			r.GetTree("tr").EditByPath([]int{0, o}, []int{0, o + 1}, nil, 0)
			return true
		}})
	}
	for _, rg := range [][2]string{{"0", "m"}, {"m", "e"}, {"q", "t"}} {
		rg := rg
		tm = append(tm, tmpl{"del@" + rg[0] + rg[1], func(m *model, r *yjson.Object, v int) bool {
			if len(m.tree) == 0 {
				return false
			}
			t := m.tree[0].text
			f, e := pos(len(t), rg[0]), pos(len(t), rg[1])
			if e-f < 2 {
				return false // one character: covered by del1
			}
			m.tree[0].text = append(append([]uint16{}, t[:f]...), t[e:]...)
			r.GetTree("tr").EditByPath([]int{0, f}, []int{0, e}, nil, 0)
			return true
		}})
	}
	var treeCmp func(m *model, d *document.Document) string
	for _, f := range c07Families() {
		if f.name == "tree" {
			treeCmp = f.cmp
		}
	}
	return c07family{"treerun", tm, func(m *model, r *yjson.Object) {
		r.SetNewTree("tr", yjson.TreeNode{Type: "doc", Children: []yjson.TreeNode{
			{Type: "p", Children: []yjson.TreeNode{{Type: "text", Value: "abcdef"}}},
		}})
		m.tree = []mPara{{text: utf16.Encode([]rune("abcdef")), attrs: map[string]string{}}}
	}, treeCmp}
}

func c03Families() []c07family {
	var out []c07family
	for _, f := range c07Families() {
		if f.name != "cnt" { // counters leave no garbage
			out = append(out, f)
		}
	}
	return append(out, treeRunFamily())
}

func c03Programs(env *Env, res *Result) {
	// total program length including the collections
	depth := 4
	if env.Tier == "thorough" {
		depth = 5
	}
	fams := c03Families()
	job := 0
	for fi := range fams {
		f := &fams[fi]
		n := len(f.tm)
		d := depth
		if f.name == "treerun" {
			d = depth + 1 // small alphabet: one step deeper
		}
		alpha := make([]string, 0, n+1)
		for _, t := range f.tm {
			alpha = append(alpha, t.name)
		}
		alpha = append(alpha, c03GC)
		var prog []string
		incomplete := false
		var rec func(hasGC bool)
		rec = func(hasGC bool) {
			if env.Expired() {
				incomplete = true
				return
			}
			mine := env.Shard == 0
			if len(prog) >= 2 {
				h := 0
				for _, c := range prog[0] + "|" + prog[1] {
					h = (h*31 + int(c)) & 0x7fffffff
				}
				mine = h%env.NShards == env.Shard
				if !mine {
					return // the whole subtree below the first two steps belongs to another worker
				}
			}
			if len(prog) > 0 && !hasGC {
				// no collection yet: both twins are the same run; only prune
				// programs whose last call is not applicable
				if _, applicable := c03RunProgram(f, prog); !applicable {
					return
				}
			}
			if len(prog) > 0 && hasGC {
				diff, applicable := "", true
				if mine {
					raw, _ := json.Marshal(c03pcase{Family: f.name, Program: prog})
					if job%64 == 0 {
						env.Current(&Found{Property: "C03", Case: raw})
					}
					job++
					diff, applicable = c03RunProgram(f, prog)
				} else if prog[len(prog)-1] != c03GC {
					_, applicable = c03RunProgram(f, prog) // length-1 programs on the other workers: prune only
				}
				if diff != "" {
					minp := c03MinimiseProgram(f, prog)
					raw, _ := json.Marshal(c03pcase{Family: f.name, Program: minp})
					mdiff, _ := c03RunProgram(f, minp)
					core := "gc-twin-program|" + f.name + "|" + strings.Join(minp, ",")
					if c03LastClass != "" {
						core = "gc-twin-program|" + f.name + "|" + c03LastClass
					}
					res.AddFound(Found{Property: "C03", Kind: "gc-twin-program", Sig: "gc-twin-program:" + f.name,
						Detail: fmt.Sprintf("program %v (minimised from %v): %s", minp, prog, mdiff), Case: raw, Core: core})
					return
				}
				if !applicable {
					return
				}
				if mine {
					res.Evaluations++
					res.Nontrivial++ // every counted program has >=1 edit before a collection
					res.Count("programs_with_gc", 1)
					if len(prog) == d {
						res.Outcome("prog|" + f.name + "|" + fmt.Sprint(len(prog)))
					}
					if len(res.Samples) < 4 && len(prog) == d && job%997 == 0 {
						res.Sample(map[string]any{"family": f.name, "program_with_collections": append([]string(nil), prog...)})
					}
				}
			}
			if len(prog) == d {
				return
			}
			for _, a := range alpha {
				if a == c03GC && (len(prog) == 0 || prog[len(prog)-1] == c03GC) {
					continue // nothing to collect yet / twice in a row
				}
				prog = append(prog, a)
				rec(hasGC || a == c03GC)
				prog = prog[:len(prog)-1]
			}
		}
		rec(false)
		if incomplete {
			res.Incomplete = append(res.Incomplete, "c03/programs/"+f.name)
		} else if env.Shard == 0 {
			res.Completed = append(res.Completed, fmt.Sprintf("c03/programs/%s/len<=%d", f.name, d))
		}
	}
}

// c03MinimiseProgram drops calls while the program still disagrees.
func c03MinimiseProgram(f *c07family, prog []string) []string {
	cur := append([]string(nil), prog...)
	for changed := true; changed; {
		changed = false
		for i := 0; i < len(cur); i++ {
			cand := append(append([]string(nil), cur[:i]...), cur[i+1:]...)
			if len(cand) == 0 {
				continue
			}
			if diff, _ := c03RunProgram(f, cand); diff != "" {
				cur = cand
				changed = true
				break
			}
		}
	}
	return cur
}

func c03ReproduceProgram(f *Found) (bool, error) {
	var c c03pcase
	if err := json.Unmarshal(f.Case, &c); err != nil {
		return false, err
	}
	fams := c03Families()
	for i := range fams {
		if fams[i].name == c.Family {
			diff, _ := c03RunProgram(&fams[i], c.Program)
			return diff != "", nil
		}
	}
	return false, fmt.Errorf("unknown family %s", c.Family)
}
