package checks

import (
	"context"
	"fmt"
	"math"
	"strings"
	"time"

	"github.com/yorkie-team/yorkie/api/converter"

	"verifmc/hist"
)

// C04 (a): sequential schedules through Engine H with the log oracle;
// (b): concurrent schedules through Engine S (the scenarios of C16 that push,
// pull, attach and detach).

type c04track struct {
	delivered map[int][]string // role -> (actor role/clientSeq) in order of delivery
	cps       map[int][]int64
	snap      map[int]bool
}

func c04OnRPC(x *hist.Exec) func(rpc *hist.RPC) {
	tr := &c04track{delivered: map[int][]string{}, cps: map[int][]int64{}, snap: map[int]bool{}}
	x.Data["c04"] = tr
	return func(rpc *hist.RPC) {
		if rpc.Resp == nil || rpc.Status != 200 {
			return
		}
		role := x.RoleOf(rpc.ClientID)
		if role < 0 {
			return
		}
		pack, err := converter.FromChangePack(rpc.Resp)
		if err != nil {
			return
		}
		for _, c := range pack.Changes {
			tr.delivered[role] = append(tr.delivered[role], fmt.Sprintf("c%d/%d", x.RoleOf(c.ID().ActorID().String()), c.ClientSeq()))
		}
		if len(pack.Snapshot) > 0 {
			tr.snap[role] = true
		}
		if rpc.Proc != "DetachDocument" {
			tr.cps[role] = append(tr.cps[role], pack.Checkpoint.ServerSeq)
		}
	}
}

func c04Oracle(x *hist.Exec) {
	tr, _ := x.Data["c04"].(*c04track)
	if tr == nil || x.Aborted {
		return
	}
	add := func(msg string) {
		x.Viol = append(x.Viol, hist.Violation{Kind: "log-order", Sig: "log-order:" + hist.NormErr(firstLineOf(msg)), Detail: msg})
	}
	di, err := x.DocInfo()
	if err != nil {
		return
	}
	infos, err := x.R.W.BE.DB.FindChangeInfosBetweenServerSeqs(context.Background(), di.RefKey(), 1, math.MaxInt64)
	if err != nil {
		return
	}
	last := map[string]uint32{}
	var log []string
	var logActor []int
	for i, ci := range infos {
		if ci.ServerSeq != int64(i+1) {
			add(fmt.Sprintf("row %d has serverSeq %d", i, ci.ServerSeq))
			return
		}
		a := ci.ActorID.String()
		// a re-attached client restarts its clientSeq at 1: only require growth within one attachment
		if ci.ClientSeq <= last[a] && ci.ClientSeq != 1 {
			add(fmt.Sprintf("actor c%d: clientSeq %d stored after %d", x.RoleOf(a), ci.ClientSeq, last[a]))
			return
		}
		last[a] = ci.ClientSeq
		log = append(log, fmt.Sprintf("c%d/%d", x.RoleOf(a), ci.ClientSeq))
		logActor = append(logActor, x.RoleOf(a))
	}
	if di.ServerSeq != int64(len(infos)) {
		add(fmt.Sprintf("head %d != %d stored changes", di.ServerSeq, len(infos)))
		return
	}
	reattached := map[int]bool{}
	for _, st := range x.Steps {
		if st.Ev.K == "dt" || st.Ev.K == "deact" {
			reattached[st.Ev.C] = true
		}
	}
	for role, cps := range tr.cps {
		prev := int64(-1)
		for _, cp := range cps {
			if cp > di.ServerSeq {
				add(fmt.Sprintf("client %d: response checkpoint %d beyond the head %d", role, cp, di.ServerSeq))
				return
			}
			if cp < prev && !reattached[role] {
				add(fmt.Sprintf("client %d: response checkpoints not monotone %v", role, cps))
				return
			}
			prev = cp
		}
		if tr.snap[role] || reattached[role] || len(cps) == 0 {
			continue
		}
		lastCp := cps[len(cps)-1]
		var want []string
		for i := int64(0); i < lastCp && int(i) < len(log); i++ {
			if logActor[i] != role {
				want = append(want, log[i])
			}
		}
		got := tr.delivered[role]
		for _, g := range got {
			if strings.HasPrefix(g, fmt.Sprintf("c%d/", role)) {
				add(fmt.Sprintf("client %d received an echo of its own change %s", role, g))
				return
			}
		}
		if fmt.Sprint(got) != fmt.Sprint(want) {
			add(fmt.Sprintf("client %d was delivered %v, the log restricted to others up to its checkpoint %d is %v", role, got, lastCp, want))
			return
		}
	}
}

var c04HSpec = &HSpec{ID: "C04",
	Scenarios: func(tier string) []*hist.Scenario {
		never := hist.Config{Threshold: hist.Big, Interval: hist.Big}
		var out []*hist.Scenario
		three := func(k, y int) {
			out = append(out, &hist.Scenario{Name: fmt.Sprintf("c04/seq/N3K%dY%d+pushonly", k, y), N: 3, Init: []string{"init.a"}, Alphabet: []string{"a.push"}, K: k, Y: y, PushOnly: true, Cfg: never})
		}
		two := func(k, y int) {
			out = append(out, &hist.Scenario{Name: fmt.Sprintf("c04/seq/N2K%dY%d+pushonly/two-kinds", k, y), N: 2, Init: []string{"init.a", "init.c"}, Alphabet: []string{"a.push", "c.inc1"}, K: k, Y: y, PushOnly: true, Cfg: never})
		}
		mix := func(late, k, y, d int) {
			out = append(out, &hist.Scenario{Name: fmt.Sprintf("c04/seq/N2L%dK%dY%dD%d", late, k, y, d), N: 2, Late: late, Init: []string{"init.a"}, Alphabet: []string{"a.push"}, K: k, Y: y, D: d, Cfg: never})
		}
		// Smallest first (`vcheck countshape`): 5.5k, 5.9k, 7.3k, 14k | 22k, 26k, 30k, 64k, 92k, 166k, 197k
		two(2, 3)
		mix(1, 2, 2, 1)
		three(2, 3)
		mix(0, 2, 2, 2)
		if tier == "thorough" {
			three(3, 3)
			two(3, 3)
			two(2, 4)
			mix(0, 2, 3, 2)
			mix(1, 2, 2, 2)
			two(3, 4)
			three(3, 4)
		}
		return out
	},
	Eval: func(r *hist.Runner, sc *hist.Scenario, h []hist.Event, res *Result) ([]hist.Violation, bool) {
		r.Prepare = func(x *hist.Exec) { x.OnRPC = c04OnRPC(x) }
		x := r.Run(sc, sc.Cfg, h)
		r.Prepare = nil
		defer x.Close()
		if n := len(x.Steps); n > 0 && x.Steps[n-1].NoEffect {
			return nil, true
		}
		c04Oracle(x)
		if len(x.Viol) == 0 {
			x.Quiesce()
			convergenceOracle(x)
			c04Oracle(x)
		}
		if res != nil && len(x.Reps) > 0 {
			res.Outcome(x.Reps[0].Doc.Marshal())
		}
		return x.Viol, false
	},
}

func c04Run(env *Env) *Result {
	// (b) first: the concurrent part is the one the property is about
	res := sCheckRun("C04", func(name string) bool {
		return !strings.Contains(name, "compact") && !strings.Contains(name, "deactivate") && !strings.Contains(name, "remove")
	})(env)
	r2 := RunH(c04HSpec, env)
	res.Merge(r2)
	return res
}

func init() {
	register(&Check{
		ID:    "C04",
		Level: "exploration",
		Rule: "(b) concurrent: Engine S (see C16) on the scenarios PushPull||PushPull (2 and 3 clients, with and without background snapshot store), the same client's PushPull twice in flight, PushPull||Detach, PushPull||Attach with snapshot pull: " +
			"ALL schedules with at most 2 preemptions (thorough 3; one less for three threads) over named-lock operations, storage calls and background tasks; " +
			"(a) sequential: every normal-form history of 3 clients (push-pull and push-only syncs, detach/attach mixes) through Engine H; " +
			"oracle on every execution: stored serverSeqs are exactly 1..N, per actor clientSeqs grow with serverSeq, every client's concatenated deliveries equal the log restricted to other actors in order up to its checkpoint, no echo, " +
			"response checkpoints monotone and never beyond the head, followed by C01's convergence; evaluations = schedules + histories; non-trivial = schedules with a preemption / histories with concurrent edits",
		Assume: []string{"memdb backend: CreateChangeInfos is one atomic transaction, so the compare-and-set race the push lock guards against in the MongoDB backend cannot occur here; the MongoDB path is out of reach offline",
			"scheduling points: named-lock operations, storage calls, task start/end"},
		QuickBudget: 300 * time.Second,
		Run:         c04Run,
		Reproduce: func(f *Found) (bool, error) {
			if f.Hist != nil {
				return ReproduceH(c04HSpec)(f)
			}
			return sReproduce(f)
		},
		Minimise: func(f *Found) *Found {
			if f.Hist != nil {
				return MinimiseH(c04HSpec)(f)
			}
			return f
		},
	})
	_ = time.Second
}
