package checks

import (
	"testing"

	"verifmc/hist"
)

func TestCountScenarios(t *testing.T) {
	for _, id := range []string{"C01", "C02", "C03"} {
		for _, tier := range []string{"quick", "thorough"} {
			var scs []*hist.Scenario
			switch id {
			case "C01":
				scs = c01Scenarios(tier)
			case "C02":
				scs = c02Scenarios(tier)
			case "C03":
				scs = c03Scenarios(tier)
			}
			total := 0
			cache := map[string]int{}
			for _, sc := range scs {
				k := keyOf(sc)
				if _, ok := cache[k]; !ok {
					cache[k] = hist.CountHistories(sc)
				}
				total += cache[k]
			}
			t.Logf("%s %s: %d scenarios, %d histories (upper bound before no-effect pruning)", id, tier, len(scs), total)
		}
	}
}

func keyOf(sc *hist.Scenario) string {
	return string(rune(sc.N)) + string(rune(sc.Late)) + string(rune(len(sc.Alphabet))) + string(rune(sc.K)) + string(rune(sc.Y)) + string(rune(sc.MaxPerClient)) + string(rune(sc.E)) + string(rune(sc.U)) + string(rune(sc.D))
}
