package checks

import (
	"context"
	"fmt"
	"math"
	"reflect"
	"strings"
	"time"

	"github.com/yorkie-team/yorkie/api/converter"
	"github.com/yorkie-team/yorkie/server/backend/database"

	"verifmc/hist"
)

var presOps = []string{"p.set1", "p.set2", "p.clear", "p.set1+o.set1"}

func c12Scenarios(tier string) []*hist.Scenario {
	var out []*hist.Scenario
	k, y := 2, 3
	if tier == "thorough" {
		k, y = 3, 4
	}
	for _, noPres := range []bool{false, true} {
		for _, th := range []int64{hist.Big, 1} {
			for _, al := range pairs(presOps) {
				if tier == "quick" && len(al) == 2 && (th == 1 || noPres) {
					continue
				}
				tag := "presence"
				if noPres {
					tag = "presenceless"
				}
				snap := ""
				if th == 1 {
					snap = "/snap1-1"
				}
				iv := th
				out = append(out, &hist.Scenario{
					Name: fmt.Sprintf("c12/%s%s/%s/N2L1K%dY%dD2", tag, snap, strings.Join(al, "+"), k, y),
					N:    2, Late: 1, Init: []string{"init.o"}, Alphabet: al, K: k, Y: y, D: 2, Deact: true,
					InitialPresence: true,
					Cfg:             hist.Config{Threshold: th, Interval: iv, NoPresence: noPres, LateOpposite: true},
				})
			}
		}
	}
	return out
}

// c12OnRPC: on presenceless documents no response may carry presence.
func c12OnRPC(x *hist.Exec) func(rpc *hist.RPC) {
	return func(rpc *hist.RPC) {
		if !x.Cfg.NoPresence || rpc.Resp == nil {
			return
		}
		for _, c := range rpc.Resp.Changes {
			if c.PresenceChange != nil {
				x.Viol = append(x.Viol, hist.Violation{Kind: "presence-leak", Sig: "presence-leak:response-change",
					Detail: fmt.Sprintf("%s response carries a presence change on a presenceless document", rpc.Proc)})
				return
			}
		}
		if len(rpc.Resp.Snapshot) > 0 {
			_, pres, err := converter.BytesToSnapshot(rpc.Resp.Snapshot)
			if err == nil && pres != nil && len(pres.ToMap()) > 0 {
				x.Viol = append(x.Viol, hist.Violation{Kind: "presence-leak", Sig: "presence-leak:response-snapshot",
					Detail: fmt.Sprintf("%s response snapshot carries presences %v on a presenceless document", rpc.Proc, pres.ToMap())})
			}
		}
	}
}

func c12Oracle(x *hist.Exec) {
	if x.Aborted || !x.Quiesced {
		return
	}
	reps := x.AttachedReps()
	attached := map[string]int{}
	for _, r := range reps {
		attached[r.Cli.ID().String()] = r.Role
	}
	if x.Cfg.NoPresence {
		for _, r := range reps {
			if m := r.Doc.AllPresences(); len(m) > 0 {
				x.Viol = append(x.Viol, hist.Violation{Kind: "presence-leak", Sig: "presence-leak:replica",
					Detail: fmt.Sprintf("client %d sees presences %v on a presenceless document", r.Role, m)})
				return
			}
		}
		di, err := x.DocInfo()
		if err != nil {
			return
		}
		infos, err := x.R.W.BE.DB.FindChangeInfosBetweenServerSeqs(context.Background(), di.RefKey(), 1, math.MaxInt64)
		if err == nil {
			for _, ci := range infos {
				if ci.PresenceChange != nil {
					x.Viol = append(x.Viol, hist.Violation{Kind: "presence-leak", Sig: "presence-leak:log",
						Detail: fmt.Sprintf("stored change %d carries a presence change on a presenceless document", ci.ServerSeq)})
					return
				}
				if len(ci.Operations) == 0 {
					x.Viol = append(x.Viol, hist.Violation{Kind: "presence-leak", Sig: "presence-leak:log-presence-only-row",
						Detail: fmt.Sprintf("stored change %d has neither operations nor presence on a presenceless document", ci.ServerSeq)})
					return
				}
			}
		}
		for _, raw := range x.R.W.MemDB.DumpTableForVerif("snapshots") {
			si := raw.(*database.SnapshotInfo)
			if si.DocID != di.ID || len(si.Snapshot) == 0 {
				continue
			}
			_, pres, err := converter.BytesToSnapshot(si.Snapshot)
			if err == nil && pres != nil && len(pres.ToMap()) > 0 {
				x.Viol = append(x.Viol, hist.Violation{Kind: "presence-leak", Sig: "presence-leak:stored-snapshot",
					Detail: fmt.Sprintf("stored snapshot at %d carries presences %v", si.ServerSeq, pres.ToMap())})
				return
			}
		}
		return
	}
	if len(reps) == 0 {
		return
	}
	// presence enabled: identical everywhere, only attached actors, every
	// attached actor that did not clear its own presence last is present.
	ref := reps[0].Doc.AllPresences()
	for _, r := range reps[1:] {
		if m := r.Doc.AllPresences(); !reflect.DeepEqual(m, ref) {
			x.Viol = append(x.Viol, hist.Violation{Kind: "presence-diverge", Sig: "presence-diverge",
				Detail: fmt.Sprintf("client %d: %v\nclient %d: %v", reps[0].Role, nameKeys(x, ref), r.Role, nameKeys(x, m))})
			return
		}
	}
	for id := range ref {
		if _, ok := attached[id]; !ok {
			x.Viol = append(x.Viol, hist.Violation{Kind: "presence-ghost", Sig: "presence-ghost",
				Detail: fmt.Sprintf("presence of non-attached client c%d still visible: %v", x.RoleOf(id), nameKeys(x, ref))})
			return
		}
	}
	cleared := map[int]bool{}
	for _, st := range x.Steps {
		if st.Err != "" {
			continue
		}
		switch {
		case st.Ev.K == "e" && st.Ev.Op == "p.clear" && !st.NoEffect:
			cleared[st.Ev.C] = true
		case st.Ev.K == "e" && strings.HasPrefix(st.Ev.Op, "p.set") && !st.NoEffect:
			cleared[st.Ev.C] = false
		case st.Ev.K == "at" && !st.NoEffect:
			// a client that attaches with WithDisablePresence to a presence-enabled
			// document simply has no presence until it sets one
			cleared[st.Ev.C] = x.Cfg.LateOpposite && st.Ev.C >= x.Sc.N
		}
	}
	for id, role := range attached {
		if _, ok := ref[id]; !ok && !cleared[role] {
			x.Viol = append(x.Viol, hist.Violation{Kind: "presence-missing", Sig: "presence-missing",
				Detail: fmt.Sprintf("attached client c%d has no presence entry: %v", role, nameKeys(x, ref))})
			return
		}
	}
}

func nameKeys[V any](x *hist.Exec, m map[string]V) map[string]V {
	out := map[string]V{}
	for k, v := range m {
		out[fmt.Sprintf("c%d", x.RoleOf(k))] = v
	}
	return out
}

func c12Eval(r *hist.Runner, sc *hist.Scenario, h []hist.Event, res *Result) ([]hist.Violation, bool) {
	r.Prepare = func(x *hist.Exec) { x.OnRPC = c12OnRPC(x) }
	x := r.Run(sc, sc.Cfg, h)
	r.Prepare = nil
	defer x.Close()
	if n := len(x.Steps); n > 0 && x.Steps[n-1].NoEffect {
		return nil, true
	}
	x.Quiesce()
	convergenceOracle(x)
	c12Oracle(x)
	if res != nil && len(x.Reps) > 0 {
		if reps := x.AttachedReps(); len(reps) > 0 {
			res.Outcome(fmt.Sprintf("%v|%v|%s", sc.Cfg.NoPresence, nameKeys(x, reps[0].Doc.AllPresences()), reps[0].Doc.Marshal()))
		}
		res.Count("snapshots_pulled", x.SnapshotsPulled)
	}
	return x.Viol, false
}

func init() {
	spec := &HSpec{ID: "C12", Scenarios: c12Scenarios, Eval: c12Eval}
	registerH(spec, &Check{
		Level: "exploration",
		Rule: "every normal-form history over presence set(2 keys)/clear/edit+presence by 2 attached + 1 late client (initial presence), <=K edits, <=Y syncs, <=2 attach/detach/deactivate events, " +
			"snapshot threshold in {never,1}, disable_presence in {false,true} fixed by the first attacher with the late attacher passing the opposite; " +
			"oracle after the quiescent closure: AllPresences identical on all attached replicas, keys subset of attached actors, attached actors present unless they cleared themselves; " +
			"presenceless: no presence in any response change/snapshot, stored change, stored snapshot or replica; non-trivial = concurrent edits",
		Assume:      []string{"memdb backend", "watch-stream (online clients) presence is not explored; AllPresences is the observed map"},
		QuickBudget: 150 * time.Second,
	})
}
