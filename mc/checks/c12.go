package checks

import (
	"context"
	"fmt"
	"math"
	"reflect"
	"strings"
	"time"

	"github.com/yorkie-team/yorkie/api/converter"
	"github.com/yorkie-team/yorkie/server/backend/database"

	"verifmc/hist"
)

var presOps = []string{"p.set1", "p.set2", "p.clear", "p.set1+o.set1"}

func c12Scenarios(tier string) []*hist.Scenario {
	var out []*hist.Scenario
	mk := func(noPres bool, th int64, al []string, n, late, k, y, d int) {
		tag := "presence"
		if noPres {
			tag = "presenceless"
		}
		snap := ""
		if th == 1 {
			snap = "/snap1-1"
		}
		if th == 2 {
			snap = "/snap2-2"
		}
		out = append(out, &hist.Scenario{
			Name: fmt.Sprintf("c12/%s%s/%s/N%dL%dK%dY%dD%d", tag, snap, strings.Join(al, "+"), n, late, k, y, d),
			N:    n, Late: late, Init: []string{"init.o"}, Alphabet: al, K: k, Y: y, D: d, Deact: true,
			InitialPresence: true,
			Cfg:             hist.Config{Threshold: th, Interval: th, NoPresence: noPres, LateOpposite: true},
		})
	}
	each := func(ops []string, n, late, k, y, d int) {
		for _, noPres := range []bool{false, true} {
			for _, th := range []int64{hist.Big, 1} {
				for _, op := range ops {
					mk(noPres, th, []string{op}, n, late, k, y, d)
				}
			}
		}
	}
	// Smallest shapes first (histories in normal form before no-effect pruning,
	// `vcheck countshape`; D counts attach, detach and deactivate events):
	// N2L1K1Y2D1 2.2k, N2K1Y2D2 8.1k, N2L1K2Y2D1 8.8k, N2K2Y2D2 31k, N2L1K1Y2D2 44k.
	each(presOps[:1], 2, 0, 1, 2, 2)
	each([]string{"p.set1", "p.clear", "p.set1+o.set1"}, 2, 1, 1, 2, 1)
	each(presOps[1:], 2, 0, 1, 2, 2)
	// threshold 2: the late attacher is fed by a snapshot, what follows reaches
	// it as changes (with threshold 1 every pull is a snapshot)
	for _, noPres := range []bool{false, true} {
		for _, op := range []string{"p.set1", "p.clear", "p.set1+o.set1"} {
			mk(noPres, 2, []string{op}, 2, 1, 1, 2, 1)
		}
	}
	each(presOps[:2], 2, 1, 2, 2, 1)
	// a participant whose last sync was push-only and who is then deactivated
	// (the server builds the presence clear itself; seeded change C12-4)
	for _, op := range []string{"p.set1", "p.set1+o.set1"} {
		out = append(out, &hist.Scenario{
			Name: fmt.Sprintf("c12/presence/pushonly/%s/N2K1Y2D1", op),
			N:    2, Init: []string{"init.o"}, Alphabet: []string{op}, K: 1, Y: 2, D: 1, Deact: true, PushOnly: true,
			InitialPresence: true,
			Cfg:             hist.Config{Threshold: hist.Big, Interval: hist.Big, LateOpposite: true},
		})
	}
	each(presOps[:1], 2, 0, 2, 2, 2)
	if tier == "quick" {
		return out
	}
	each(presOps[2:], 2, 1, 2, 2, 1)
	each(presOps[1:3], 2, 0, 2, 2, 2)
	each([]string{"p.set1", "p.set1+o.set1"}, 2, 1, 1, 2, 2)
	each(presOps[:2], 2, 0, 2, 3, 2)
	return out
}

// c12OnRPC: on presenceless documents no response may carry presence.
func c12OnRPC(x *hist.Exec) func(rpc *hist.RPC) {
	return func(rpc *hist.RPC) {
		if !x.Cfg.NoPresence || rpc.Resp == nil {
			return
		}
		for _, c := range rpc.Resp.Changes {
			if c.PresenceChange != nil {
				x.Viol = append(x.Viol, hist.Violation{Kind: "presence-leak", Sig: "presence-leak:response-change",
					Detail: fmt.Sprintf("%s response carries a presence change on a presenceless document", rpc.Proc)})
				return
			}
		}
		if len(rpc.Resp.Snapshot) > 0 {
			_, pres, err := converter.BytesToSnapshot(rpc.Resp.Snapshot)
			if err == nil && pres != nil && len(pres.ToMap()) > 0 {
				x.Viol = append(x.Viol, hist.Violation{Kind: "presence-leak", Sig: "presence-leak:response-snapshot",
					Detail: fmt.Sprintf("%s response snapshot carries presences %v on a presenceless document", rpc.Proc, pres.ToMap())})
			}
		}
	}
}

func c12Oracle(x *hist.Exec) {
	if x.Aborted || !x.Quiesced {
		return
	}
	reps := x.AttachedReps()
	attached := map[string]int{}
	for _, r := range reps {
		attached[r.Cli.ID().String()] = r.Role
	}
	if x.Cfg.NoPresence {
		for _, r := range reps {
			// What the server returned is checked at every response (c12OnRPC). A
			// replica's view may still contain the replica's OWN presence when that
			// client attached with presence enabled (it set it locally; nothing was
			// stored or returned): only other participants' presence would be a leak.
			m := r.Doc.AllPresences()
			delete(m, r.Cli.ID().String())
			if len(m) > 0 {
				x.Viol = append(x.Viol, hist.Violation{Kind: "presence-leak", Sig: "presence-leak:replica",
					Detail: fmt.Sprintf("client %d sees presences of others %v on a presenceless document", r.Role, m)})
				return
			}
		}
		di, err := x.DocInfo()
		if err != nil {
			return
		}
		infos, err := x.R.W.BE.DB.FindChangeInfosBetweenServerSeqs(context.Background(), di.RefKey(), 1, math.MaxInt64)
		if err == nil {
			for _, ci := range infos {
				if ci.PresenceChange != nil {
					x.Viol = append(x.Viol, hist.Violation{Kind: "presence-leak", Sig: "presence-leak:log",
						Detail: fmt.Sprintf("stored change %d carries a presence change on a presenceless document", ci.ServerSeq)})
					return
				}
				if len(ci.Operations) == 0 {
					x.Viol = append(x.Viol, hist.Violation{Kind: "presence-leak", Sig: "presence-leak:log-presence-only-row",
						Detail: fmt.Sprintf("stored change %d has neither operations nor presence on a presenceless document", ci.ServerSeq)})
					return
				}
			}
		}
		for _, raw := range x.R.W.MemDB.DumpTableForVerif("snapshots") {
			si := raw.(*database.SnapshotInfo)
			if si.DocID != di.ID || len(si.Snapshot) == 0 {
				continue
			}
			_, pres, err := converter.BytesToSnapshot(si.Snapshot)
			if err == nil && pres != nil && len(pres.ToMap()) > 0 {
				x.Viol = append(x.Viol, hist.Violation{Kind: "presence-leak", Sig: "presence-leak:stored-snapshot",
					Detail: fmt.Sprintf("stored snapshot at %d carries presences %v", si.ServerSeq, pres.ToMap())})
				return
			}
		}
		return
	}
	if len(reps) == 0 {
		return
	}
	// presence enabled: identical everywhere, only attached actors, every
	// attached actor that did not clear its own presence last is present.
	ref := reps[0].Doc.AllPresences()
	for _, r := range reps[1:] {
		if m := r.Doc.AllPresences(); !reflect.DeepEqual(m, ref) {
			x.Viol = append(x.Viol, hist.Violation{Kind: "presence-diverge", Sig: "presence-diverge",
				Detail: fmt.Sprintf("client %d: %v\nclient %d: %v", reps[0].Role, nameKeys(x, ref), r.Role, nameKeys(x, m))})
			return
		}
	}
	for id := range ref {
		if _, ok := attached[id]; !ok {
			x.Viol = append(x.Viol, hist.Violation{Kind: "presence-ghost", Sig: "presence-ghost",
				Detail: fmt.Sprintf("presence of non-attached client c%d still visible: %v", x.RoleOf(id), nameKeys(x, ref))})
			return
		}
	}
	cleared := map[int]bool{}
	for _, st := range x.Steps {
		if st.Err != "" {
			continue
		}
		switch {
		case st.Ev.K == "e" && st.Ev.Op == "p.clear" && !st.NoEffect:
			cleared[st.Ev.C] = true
		case st.Ev.K == "e" && strings.HasPrefix(st.Ev.Op, "p.set") && !st.NoEffect:
			cleared[st.Ev.C] = false
		case st.Ev.K == "at" && !st.NoEffect:
			// a client that attaches with WithDisablePresence to a presence-enabled
			// document simply has no presence until it sets one
			cleared[st.Ev.C] = x.Cfg.LateOpposite && st.Ev.C >= x.Sc.N
		}
	}
	for id, role := range attached {
		if _, ok := ref[id]; !ok && !cleared[role] {
			x.Viol = append(x.Viol, hist.Violation{Kind: "presence-missing", Sig: "presence-missing",
				Detail: fmt.Sprintf("attached client c%d has no presence entry: %v", role, nameKeys(x, ref))})
			return
		}
	}
}

func nameKeys[V any](x *hist.Exec, m map[string]V) map[string]V {
	out := map[string]V{}
	for k, v := range m {
		out[fmt.Sprintf("c%d", x.RoleOf(k))] = v
	}
	return out
}

func c12Eval(r *hist.Runner, sc *hist.Scenario, h []hist.Event, res *Result) ([]hist.Violation, bool) {
	r.Prepare = func(x *hist.Exec) { x.OnRPC = c12OnRPC(x) }
	x := r.Run(sc, sc.Cfg, h)
	r.Prepare = nil
	defer x.Close()
	if n := len(x.Steps); n > 0 && x.Steps[n-1].NoEffect {
		return nil, true
	}
	x.Quiesce()
	convergenceOracle(x)
	c12Oracle(x)
	if res != nil && len(x.Reps) > 0 {
		if reps := x.AttachedReps(); len(reps) > 0 {
			res.Outcome(fmt.Sprintf("%v|%v|%s", sc.Cfg.NoPresence, nameKeys(x, reps[0].Doc.AllPresences()), reps[0].Doc.Marshal()))
		}
		res.Count("snapshots_pulled", x.SnapshotsPulled)
	}
	return x.Viol, false
}

func init() {
	spec := &HSpec{ID: "C12", Scenarios: c12Scenarios, Eval: c12Eval}
	registerH(spec, &Check{
		Level: "exploration",
		Rule: "every normal-form history over presence set(2 keys)/clear/edit+presence by 2 attached + 1 late client (initial presence), <=K edits, <=Y syncs, <=2 attach/detach/deactivate events, " +
			"snapshot threshold in {never,1}, disable_presence in {false,true} fixed by the first attacher with the late attacher passing the opposite; " +
			"oracle after the quiescent closure: AllPresences identical on all attached replicas, keys subset of attached actors, attached actors present unless they cleared themselves; " +
			"presenceless: no presence in any response change/snapshot, stored change, stored snapshot or replica; non-trivial = concurrent edits",
		Assume:      []string{"memdb backend", "watch-stream (online clients) presence is not explored; AllPresences is the observed map"},
		QuickBudget: 300 * time.Second,
	})
}
