package checks

import (
	"bytes"
	"fmt"
	"math"

	"google.golang.org/protobuf/proto"
	"google.golang.org/protobuf/reflect/protoreflect"

	"github.com/yorkie-team/yorkie/api/types"
)

func typesDocRef() types.DocRefKey {
	return types.DocRefKey{ProjectID: "000000000000000000000000", DocID: "000000000000000000000001"}
}

type mutStep struct {
	fd  protoreflect.FieldDescriptor
	idx int                  // list index (-1 = not a list)
	key *protoreflect.MapKey // map key
}

func navigate(root protoreflect.Message, path []mutStep) protoreflect.Message {
	cur := root
	for _, st := range path {
		switch {
		case st.key != nil:
			cur = cur.Mutable(st.fd).Map().Mutable(*st.key).Message()
		case st.idx >= 0:
			cur = cur.Mutable(st.fd).List().Get(st.idx).Message()
		default:
			cur = cur.Mutable(st.fd).Message()
		}
	}
	return cur
}

// localShape names one message node by its type and the set of fields that are
// present in it (not recursive): "RGANode{position_created_at,position_removed_at}"
// is a dead array slot, "RGANode{element,next}" a live one.
func localShape(m protoreflect.Message) string {
	s := string(m.Descriptor().Name()) + "{"
	fds := m.Descriptor().Fields()
	for i := 0; i < fds.Len(); i++ {
		if fd := fds.Get(i); m.Has(fd) {
			s += string(fd.Name()) + ","
		}
	}
	return s + "}"
}

// localShapes collects the local shapes of every message node below m.
func localShapes(m protoreflect.Message, into map[string]bool) {
	into[localShape(m)] = true
	m.Range(func(fd protoreflect.FieldDescriptor, v protoreflect.Value) bool {
		switch {
		case fd.IsMap():
			if fd.MapValue().Kind() == protoreflect.MessageKind {
				v.Map().Range(func(_ protoreflect.MapKey, mv protoreflect.Value) bool {
					localShapes(mv.Message(), into)
					return true
				})
			}
		case fd.IsList():
			if fd.Kind() == protoreflect.MessageKind {
				for i := 0; i < v.List().Len(); i++ {
					localShapes(v.List().Get(i).Message(), into)
				}
			}
		case fd.Kind() == protoreflect.MessageKind:
			localShapes(v.Message(), into)
		}
		return true
	})
}

// mutatedShapes remembers which local shapes have had their fields mutated in
// this run: list elements beyond the third are walked only when they show a
// shape that has not been mutated yet (a dead slot at the end of a long array).
var mutatedShapes = map[string]bool{}

// structuralMutations yields every single structural mutation of m, one at a
// time, each on a fresh clone.
func structuralMutations(m proto.Message, yield func(mut proto.Message, desc string)) {
	var walk func(cur protoreflect.Message, path []mutStep, pstr string)
	walk = func(cur protoreflect.Message, path []mutStep, pstr string) {
		mutatedShapes[localShape(cur)] = true
		fds := cur.Descriptor().Fields()
		for i := 0; i < fds.Len(); i++ {
			fd := fds.Get(i)
			fpath := pstr + "." + string(fd.Name())
			set := cur.Has(fd)
			mutate := func(desc string, f func(msg protoreflect.Message)) {
				c := proto.Clone(m)
				f(navigate(c.ProtoReflect(), path))
				yield(c, fpath+":"+desc)
			}
			if set {
				mutate("clear", func(msg protoreflect.Message) { msg.Clear(fd) })
			}
			switch {
			case fd.IsMap():
				if !set {
					continue
				}
				if fd.MapValue().Kind() == protoreflect.MessageKind {
					n := 0
					cur.Get(fd).Map().Range(func(k protoreflect.MapKey, v protoreflect.Value) bool {
						if n < 2 {
							kk := k
							mutate("map-empty-value["+k.String()+"]", func(msg protoreflect.Message) {
								mp := msg.Mutable(fd).Map()
								mp.Set(kk, mp.NewValue())
							})
							walk(v.Message(), append(append([]mutStep{}, path...), mutStep{fd: fd, idx: -1, key: &kk}), fpath+"["+k.String()+"]")
						}
						n++
						return true
					})
				}
			case fd.IsList():
				if set {
					l := cur.Get(fd).List()
					if l.Len() > 1 {
						mutate("list-first-only", func(msg protoreflect.Message) { msg.Mutable(fd).List().Truncate(1) })
						mutate("list-drop-first", func(msg protoreflect.Message) {
							ll := msg.Mutable(fd).List()
							for j := 0; j+1 < ll.Len(); j++ {
								ll.Set(j, ll.Get(j+1))
							}
							ll.Truncate(ll.Len() - 1)
						})
					}
					if fd.Kind() == protoreflect.MessageKind {
						mutate("list-append-empty", func(msg protoreflect.Message) {
							ll := msg.Mutable(fd).List()
							ll.Append(ll.NewElement())
						})
						for j := 0; j < l.Len(); j++ {
							if j >= 3 && mutatedShapes[localShape(l.Get(j).Message())] {
								continue
							}
							walk(l.Get(j).Message(), append(append([]mutStep{}, path...), mutStep{fd: fd, idx: j}), fmt.Sprintf("%s[%d]", fpath, j))
						}
					} else if fd.Kind() == protoreflect.BytesKind {
						mutate("list-append-garbage", func(msg protoreflect.Message) {
							msg.Mutable(fd).List().Append(protoreflect.ValueOfBytes([]byte{0xff, 0x01, 0x02}))
						})
					}
				} else if fd.Kind() == protoreflect.MessageKind {
					mutate("list-one-empty", func(msg protoreflect.Message) {
						ll := msg.Mutable(fd).List()
						ll.Append(ll.NewElement())
					})
				}
			case fd.Kind() == protoreflect.MessageKind:
				mutate("empty-message", func(msg protoreflect.Message) { msg.Set(fd, protoreflect.ValueOfMessage(msg.NewField(fd).Message())) })
				if set {
					walk(cur.Get(fd).Message(), append(append([]mutStep{}, path...), mutStep{fd: fd, idx: -1}), fpath)
				}
			case fd.Kind() == protoreflect.BytesKind:
				for _, n := range []int{0, 1, 11, 12, 13} {
					nn := n
					mutate(fmt.Sprintf("bytes%d", n), func(msg protoreflect.Message) { msg.Set(fd, protoreflect.ValueOfBytes(bytes.Repeat([]byte{0xab}, nn))) })
				}
			case fd.Kind() == protoreflect.StringKind:
				mutate("string-empty", func(msg protoreflect.Message) { msg.Set(fd, protoreflect.ValueOfString("")) })
				mutate("string-garbage", func(msg protoreflect.Message) { msg.Set(fd, protoreflect.ValueOfString("\x00~garbage")) })
			case fd.Kind() == protoreflect.Int32Kind || fd.Kind() == protoreflect.Sint32Kind || fd.Kind() == protoreflect.Sfixed32Kind:
				for _, v := range []int32{0, -1, math.MinInt32, math.MaxInt32} {
					vv := v
					mutate(fmt.Sprint("i32=", v), func(msg protoreflect.Message) { msg.Set(fd, protoreflect.ValueOfInt32(vv)) })
				}
			case fd.Kind() == protoreflect.Int64Kind || fd.Kind() == protoreflect.Sint64Kind || fd.Kind() == protoreflect.Sfixed64Kind:
				for _, v := range []int64{0, -1, math.MinInt64, math.MaxInt64} {
					vv := v
					mutate(fmt.Sprint("i64=", v), func(msg protoreflect.Message) { msg.Set(fd, protoreflect.ValueOfInt64(vv)) })
				}
			case fd.Kind() == protoreflect.Uint32Kind || fd.Kind() == protoreflect.Fixed32Kind:
				for _, v := range []uint32{0, 1, math.MaxUint32} {
					vv := v
					mutate(fmt.Sprint("u32=", v), func(msg protoreflect.Message) { msg.Set(fd, protoreflect.ValueOfUint32(vv)) })
				}
			case fd.Kind() == protoreflect.Uint64Kind || fd.Kind() == protoreflect.Fixed64Kind:
				for _, v := range []uint64{0, 1, math.MaxUint64} {
					vv := v
					mutate(fmt.Sprint("u64=", v), func(msg protoreflect.Message) { msg.Set(fd, protoreflect.ValueOfUint64(vv)) })
				}
			case fd.Kind() == protoreflect.EnumKind:
				for _, v := range []protoreflect.EnumNumber{0, 1, 99, -1} {
					vv := v
					mutate(fmt.Sprint("enum=", v), func(msg protoreflect.Message) { msg.Set(fd, protoreflect.ValueOfEnum(vv)) })
				}
			case fd.Kind() == protoreflect.BoolKind:
				mutate("flip", func(msg protoreflect.Message) { msg.Set(fd, protoreflect.ValueOfBool(!msg.Get(fd).Bool())) })
			case fd.Kind() == protoreflect.DoubleKind || fd.Kind() == protoreflect.FloatKind:
				mutate("nan", func(msg protoreflect.Message) {
					if fd.Kind() == protoreflect.DoubleKind {
						msg.Set(fd, protoreflect.ValueOfFloat64(math.NaN()))
					} else {
						msg.Set(fd, protoreflect.ValueOfFloat32(float32(math.NaN())))
					}
				})
			}
		}
		// each other arm of every oneof, empty
		oos := cur.Descriptor().Oneofs()
		for i := 0; i < oos.Len(); i++ {
			oo := oos.Get(i)
			which := cur.WhichOneof(oo)
			for j := 0; j < oo.Fields().Len(); j++ {
				fd := oo.Fields().Get(j)
				if which != nil && fd.Number() == which.Number() {
					continue
				}
				if fd.Kind() != protoreflect.MessageKind {
					continue
				}
				c := proto.Clone(m)
				msg := navigate(c.ProtoReflect(), path)
				msg.Set(fd, protoreflect.ValueOfMessage(msg.NewField(fd).Message()))
				yield(c, pstr+"."+string(oo.Name())+":switch-to-empty-"+string(fd.Name()))
			}
		}
	}
	walk(m.ProtoReflect(), nil, "")
}
