package checks

import (
	"context"
	"fmt"
	"strings"
	"time"

	"github.com/yorkie-team/yorkie/pkg/document"
	"github.com/yorkie-team/yorkie/pkg/document/change"

	"verifmc/hist"
)

// conflictPairs: per data type, pairs of edit kinds of which one leaves
// metadata behind (tombstone, dead position slot, split node, style) that the
// other, made concurrently by a client that has not seen it, anchors on. A
// snapshot-fed replica must integrate that concurrent edit exactly like a
// change-fed one, so the snapshot has to carry the metadata.
var conflictPairs = []family{
	{"arr", []string{"init.a"}, []string{"a.mv0L+a.ins0", "a.mv0L+a.mvL0", "a.delL+a.insL", "a.del0+a.ins0", "a.setL+a.insL"}},
	{"txt", []string{"init.t"}, []string{"t.delM+t.insM", "t.delF+t.styF", "t.insM+t.styB", "t.repM+t.insM"}},
	{"tree", []string{"init.tr"}, []string{"tr.delP0+tr.insT1", "tr.delT0+tr.insT0", "tr.sty0+tr.delT0", "tr.repP0+tr.insT1", "tr.splitP0+tr.delP0", "tr.splitP0+tr.sty0"}},
	{"obj", []string{"init.o"}, []string{"o.del1+o.setin1", "o.setobj1+o.setin1", "o.setarr1+o.pushin1"}},
	{"cnt", []string{"init.c"}, []string{"c.inc1+c.reset"}},
}

func c02Scenarios(tier string) []*hist.Scenario {
	var out []*hist.Scenario
	cfgs := [][2]int64{{1, 1}, {2, 2}, {2, 1}}
	add := func(fam string, init, al []string, n, k, y, e, maxPer int, ti [2]int64) {
		sc := &hist.Scenario{
			Name: fmt.Sprintf("c02/%s/%s/snap%d-%d/N%dL1K%dY%dE%d", fam, strings.Join(al, "+"), ti[0], ti[1], n, k, y, e),
			N:    n, Late: 1, Init: init, Alphabet: al, K: k, Y: y, MaxPerClient: maxPer,
			Cfg: hist.Config{Threshold: ti[0], Interval: ti[1]},
		}
		if e > 0 {
			sc.Env, sc.E = []string{"evict"}, e
		}
		out = append(out, sc)
	}
	// Sizes (histories in normal form before no-effect pruning, `vcheck
	// countshape`): N1L1K2Y2E1 2.1k, N1L1K2Y3E1 9.0k, N2L1K2Y2(max 1 per client)
	// 2.5k for a pair of kinds, N2L1K2Y3 13.3k. Smallest shapes first.
	if tier == "quick" {
		// one writer + one late (snapshot-fed) client which then edits concurrently
		for _, f := range coreFamilies() {
			for _, op := range f.ops {
				add(f.name, f.init, []string{op}, 1, 2, 2, 1, 0, cfgs[0])
			}
		}
		// two writers with concurrent edits + the late client
		for _, f := range conflictPairs {
			for _, p := range f.ops {
				add(f.name, f.init, strings.Split(p, "+"), 2, 2, 2, 0, 1, cfgs[0])
			}
		}
		// the same with threshold 2: with threshold 1 EVERY pull is a snapshot, so
		// the late client never gets the concurrent edit as a change on top of its
		// snapshot; with 2 the attach (>= 2 changes behind) is a snapshot and the
		// single change afterwards is pulled as a change (seeded change C02-3)
		for _, f := range conflictPairs {
			for _, p := range f.ops {
				add(f.name, f.init, strings.Split(p, "+"), 2, 2, 2, 0, 1, cfgs[2])
			}
		}
		for _, f := range coreFamilies() {
			for _, op := range f.ops[:2] {
				add(f.name, f.init, []string{op}, 1, 2, 2, 1, 0, cfgs[1])
			}
		}
		// changes that carry two operations (garbage made inside one change,
		// a container created and filled): one writer + the late client
		for _, op := range multiOps {
			add("multi", []string{"init.o", "init.a", "init.t", "init.c"}, []string{op}, 1, 2, 2, 1, 0, cfgs[0])
		}
		return out
	}
	for _, op := range multiOps {
		for _, ti := range cfgs[:2] {
			add("multi", []string{"init.o", "init.a", "init.t", "init.c"}, []string{op}, 1, 2, 3, 1, 0, ti)
		}
	}
	for _, f := range coreFamilies() {
		for _, op := range f.ops {
			for _, ti := range cfgs[:2] {
				add(f.name, f.init, []string{op}, 1, 2, 3, 1, 0, ti)
			}
		}
	}
	for _, f := range conflictPairs {
		for _, p := range f.ops {
			for _, ti := range cfgs {
				add(f.name, f.init, strings.Split(p, "+"), 2, 2, 3, 0, 1, ti)
			}
		}
	}
	// every pair of core kinds of one data type, two writers + late client
	for _, f := range coreFamilies() {
		for _, al := range pairs(f.ops) {
			if len(al) == 2 {
				add(f.name, f.init, al, 2, 2, 2, 0, 1, cfgs[0])
			}
		}
	}
	return out
}

// replayLog applies the stored change log 1..s one change at a time to an
// empty document without GC: the independent reference for "a client that
// applied every change one by one".
func replayLog(x *hist.Exec, s int64) (string, error) {
	di, err := x.DocInfo()
	if err != nil {
		return "", err
	}
	changes, err := x.R.W.BE.DB.FindChangesBetweenServerSeqs(context.Background(), di.RefKey(), 1, s)
	if err != nil {
		return "", err
	}
	d := document.NewInternalDocument(x.DocKey)
	var out string
	err, _ = hist.Guard(func() error {
		for _, c := range changes {
			if e := d.ApplyChangePack(change.NewPack(x.DocKey, change.InitialCheckpoint.NextServerSeq(c.ServerSeq()), []*change.Change{c}, nil, nil), true); e != nil {
				return e
			}
		}
		out = d.Marshal()
		return nil
	})
	return out, err
}

// rebuildAllSeqs compares the server's rebuild (closest stored snapshot + later
// changes, through the snapshot cache) with the pure log replay. Pass 0 walks
// serverSeq upwards with a warm cache, pass 1 purges the cache before every
// call (cold), pass 2 walks downwards (cache entry newer than requested).
func rebuildAllSeqs(x *hist.Exec) {
	di, err := x.DocInfo()
	if err != nil {
		return
	}
	head := di.ServerSeq
	ref := map[int64]string{}
	for s := int64(1); s <= head; s++ {
		m, err := replayLog(x, s)
		if err != nil {
			x.Viol = append(x.Viol, hist.Violation{Kind: "log-replay-error", Sig: "log-replay-error:" + hist.NormErr(err.Error()),
				Detail: fmt.Sprintf("serverSeq %d: %v", s, err)})
			return
		}
		ref[s] = m
	}
	check := func(pass int, s int64) bool {
		m, err := x.ServerMarshal(s)
		if err != nil {
			x.Viol = append(x.Viol, hist.Violation{Kind: "server-rebuild-error", Sig: fmt.Sprintf("server-rebuild-error:pass%d:%s", pass, hist.NormErr(err.Error())),
				Detail: fmt.Sprintf("serverSeq %d pass %d (0=warm ascending,1=cold,2=warm descending): %v", s, pass, err)})
			return false
		}
		if m != ref[s] {
			x.Viol = append(x.Viol, hist.Violation{Kind: "diverge", Sig: fmt.Sprintf("diverge:server-rebuild-vs-replay:pass%d", pass),
				Detail: fmt.Sprintf("serverSeq %d pass %d (0=warm ascending,1=cold,2=warm descending)\nsnapshot+changes: %s\npure replay:      %s", s, pass, m, ref[s])})
			return false
		}
		return true
	}
	// Only the head is rebuilt with GC against the live minimum vector by the
	// request paths (pullSnapshot/storeSnapshot); older serverSeqs are reached
	// through GetDocumentByServerSeq / revisions. Cold first so that a cache
	// poisoned by an earlier rebuild does not mask plain snapshot defects.
	for s := int64(1); s <= head; s++ {
		x.R.W.PurgeSnapshotCache()
		if !check(1, s) {
			return
		}
	}
	x.R.W.PurgeSnapshotCache()
	for s := head; s >= 1; s-- {
		if !check(2, s) {
			return
		}
	}
	x.R.W.PurgeSnapshotCache()
	for s := int64(1); s <= head; s++ {
		if !check(0, s) {
			return
		}
	}
}

func cloneEqRoot(x *hist.Exec) {
	for _, rep := range x.AttachedReps() {
		if rep.SyncErrs > 0 {
			continue
		}
		if a, b := rep.Doc.Root().Marshal(), rep.Doc.Marshal(); a != b {
			x.Viol = append(x.Viol, hist.Violation{Kind: "clone-ne-root", Sig: "clone-ne-root",
				Detail: fmt.Sprintf("client %d\nRoot():    %s\nMarshal(): %s", rep.Role, a, b)})
			return
		}
	}
}

func c02Eval(r *hist.Runner, sc *hist.Scenario, h []hist.Event, res *Result) ([]hist.Violation, bool) {
	r.AfterEvent = []func(x *hist.Exec, i int){sameCheckpointObserver}
	x := r.Run(sc, sc.Cfg, h)
	r.AfterEvent = nil
	defer x.Close()
	if n := len(x.Steps); n > 0 && x.Steps[n-1].NoEffect {
		return nil, true
	}
	x.Quiesce()
	// snapshot-fed (late) and change-fed replicas of the same world must agree,
	// and agree with the server's rebuild at the head.
	convergenceOracle(x)
	if len(x.Viol) == 0 && x.Quiesced {
		cloneEqRoot(x)
	}
	if len(x.Viol) == 0 && x.Quiesced {
		rebuildAllSeqs(x)
	}
	if res != nil {
		if len(x.Viol) == 0 && len(x.Reps) > 0 {
			res.Outcome(sc.Init[0] + "|" + x.Reps[0].Doc.Marshal())
		}
		res.Count("snapshots_pulled", x.SnapshotsPulled)
		if x.SnapshotsPulled > 0 {
			res.Count("executions_with_snapshot_pull", 1)
		}
	}
	return x.Viol, false
}

func init() {
	spec := &HSpec{ID: "C02", Scenarios: c02Scenarios, Eval: c02Eval}
	registerH(spec, &Check{
		Level: "exploration",
		Rule: "every normal-form history of <=K edits, <=Y syncs, one late attach at any position and <=E snapshot-cache evictions at any position, " +
			"for project (snapshot threshold, interval) in {(1,1),(2,2)} (thorough: also (2,1)); shapes: one writer + the late (snapshot-fed) client, every core edit kind; " +
			"two writers making concurrent edits of a conflicting pair of kinds (one leaves a tombstone / dead position slot / split / style the other anchors on) + the late client " +
			"(thorough: every pair of core kinds of a data type); edits after the late attach land on the snapshot-fed replica; " +
			"oracle: snapshot-fed and change-fed replicas and the server rebuild agree after the quiescent closure and whenever two replicas are at the same checkpoint, " +
			"clone==root, and the server rebuild at EVERY serverSeq 1..head (cold cache, warm descending, warm ascending) equals an independent one-by-one replay of the stored change log; " +
			"non-trivial = concurrent edits by different clients",
		Assume:      []string{"memdb backend", "small-scope bounds per scenario name"},
		QuickBudget: 300 * time.Second,
	})
}
