package checks

import (
	"encoding/json"
	"fmt"
	"os"
	"os/exec"
	"path/filepath"
	"strings"
	"time"
)

// C17 runs in a test binary (testing/synctest needs *testing.T): see
// mc/pubsubmc/c17_test.go. This file only launches it and converts the result.

type c17result struct {
	Evaluations int            `json:"evaluations"`
	Nontrivial  int            `json:"nontrivial"`
	Outcomes    map[string]int `json:"outcomes"`
	Samples     []any          `json:"samples"`
	Found       []struct {
		Kind, Detail, Case, Core string
	} `json:"found"`
	Incomplete []string `json:"incomplete"`
	Completed  []string `json:"completed"`
}

func c17Binary() string { return VerifDir() + "/.build/c17.test" }

func c17Exec(test string, args []string, out string, limit time.Duration) (*c17result, error) {
	cmd := exec.Command(c17Binary(), append([]string{"-test.run", "^" + test + "$", "-test.timeout", fmt.Sprintf("%ds", int(limit.Seconds())+60), "-out", out}, args...)...)
	// The child enforces its own deadline (-test.timeout); tell the worker's
	// watchdog that waiting for it is not a hang.
	stop := make(chan struct{})
	go func() {
		for {
			select {
			case <-stop:
				return
			case <-time.After(2 * time.Second):
				Progress.Add(1)
			}
		}
	}()
	b, err := cmd.CombinedOutput()
	close(stop)
	if err != nil {
		tail := string(b)
		if len(tail) > 3000 {
			tail = tail[:1500] + "\n...\n" + tail[len(tail)-1500:]
		}
		return nil, fmt.Errorf("c17.test: %v\n%s", err, tail)
	}
	raw, err := os.ReadFile(out)
	if err != nil {
		return nil, err
	}
	var r c17result
	if err := json.Unmarshal(raw, &r); err != nil {
		return nil, err
	}
	return &r, nil
}

func init() {
	register(&Check{
		ID:    "C17",
		Level: "exploration",
		Rule: "the real pubsub.PubSub inside testing/synctest bubbles (virtual clock; the batch publisher goroutine, its ticker and the publish timeouts settle deterministically): " +
			"EVERY interleaving, at call granularity, of S subscribers' [Subscribe, Unsubscribe] programs, P publishers' [Publish(DocChanged) x m] programs and up to E clock events (advance by the batch window / by the publish timeout) " +
			"for (S,P,m,E) in {(1,1,1,2),(1,1,3,2),(2,1,1,2),(2,1,2,2),(1,2,1,2),(1,2,2,2),(2,2,1,1),(2,2,2,1)}, m = publishes per publisher (the batch publisher keeps at most two pending events per actor, so 3 by one actor and 2+1 by two reach its de-duplication; thorough up to 3 subscribers / 3 publishers / 3 publishes / 3 clock events), times every subset of stalled consumers (never read until the end; self-prune threshold lowered to 2 failures); " +
			"oracle: a subscriber whose Subscribe returned before a Publish was called and that stays subscribed for window + k*timeout of virtual time afterwards reads a notification of that actor (stalled consumer: any notification read after the publish) or sees its channel closed; " +
			"nothing published after its Unsubscribe is read; ClientIDs is empty once all have unsubscribed and no goroutine stays blocked when the bubble ends (synctest's own check); no panic; non-trivial = sequences with >= 3 programs; " +
			"(b) concurrent calls: Subscribe/Unsubscribe/Publish (and a clock thread that lets the batch publisher flush) as threads of the cooperative scheduler, one execution per synctest bubble; scheduling points = every exported pkg/cmap operation (verif hook; an operation running a callback under its shard lock is one point) and thread start/end; " +
			"7 scenarios of 2-3 threads (first-in / last-out races, re-subscribe, pending batch), ALL schedules with at most 3 preemptions (thorough: unbounded, plus 3 larger scenarios); " +
			"oracle: no panic, no deadlock, a watcher whose Subscribe returned before a Publish was called and that has not asked to leave is told within 3 windows or its stream is closed, ClientIDs empty and every channel closed after everybody left, no goroutine left blocked (a batch publisher of a document nobody watches)",
		Assume: []string{"part (a): interleaving is at the granularity of the three API calls; part (b): at the granularity of cmap operations (each holds its shard lock for its whole duration, so it is atomic); the subscription mutex and the batch publisher mutex are not scheduling points (no code path holds one of them across a cmap operation by another thread)",
			"a goroutine waiting for a sync.Mutex is not durably blocked for synctest: before a stalled consumer is unsubscribed the pending timed sends to it are allowed to time out first (see the harness comment)"},
		QuickBudget: 120 * time.Second,
		Run: func(env *Env) *Result {
			res := NewResult()
			out := filepath.Join(os.TempDir(), fmt.Sprintf("c17-%d-%d.json", os.Getpid(), env.Shard))
			defer os.Remove(out)
			// (a) call-granular interleavings with virtual time, (b) interleavings of
			// the calls' internal steps under the cooperative scheduler
			for _, test := range []string{"TestC17", "TestC17S"} {
				budget := time.Until(env.Deadline)
				r, err := c17Exec(test, []string{"-tier", env.Tier, "-shard", fmt.Sprint(env.Shard), "-shards", fmt.Sprint(env.NShards), "-budget", fmt.Sprintf("%.0f", budget.Seconds())}, out, budget)
				if err != nil {
					if strings.Contains(err.Error(), "blocked goroutines remain") {
						res.AddFound(Found{Property: "C17", Kind: "goroutine-leak", Sig: "goroutine-leak", Detail: err.Error(), Core: "goroutine-leak|bubble ended with blocked goroutines"})
						return res
					}
					res.HarnessErr = append(res.HarnessErr, err.Error())
					return res
				}
				res.Evaluations += r.Evaluations
				res.Nontrivial += r.Nontrivial
				for k, v := range r.Outcomes {
					res.Outcomes[k] += v
				}
				for _, s := range r.Samples {
					res.Sample(s)
				}
				res.Incomplete = append(res.Incomplete, r.Incomplete...)
				res.Completed = append(res.Completed, r.Completed...)
				for _, f := range r.Found {
					res.AddFound(Found{Property: "C17", Kind: f.Kind, Sig: f.Kind, Detail: f.Detail, Case: json.RawMessage(f.Case), Core: f.Core})
				}
				if test == "TestC17S" {
					res.Count("schedules_of_internal_steps", r.Evaluations)
				}
			}
			// (c) real clock: unsubscribe of a stalled watcher during the publisher's
			// timed send, offset swept in 10 ms steps (see c17r_test.go); one child
			// process per offset, because the failure kills the process
			for off := 0; off <= 300; off += 10 {
				if (off/10)%env.NShards != env.Shard {
					continue
				}
				if env.Expired() {
					res.Incomplete = append(res.Incomplete, "c17r/offsets")
					break
				}
				Progress.Add(1)
				v := c17RealTime(off)
				res.Evaluations++
				res.Nontrivial++
				res.Outcome("c17r|" + firstWordsOf(v, 3))
				if v != "" {
					raw, _ := json.Marshal(map[string]int{"realtime_offset_ms": off})
					res.AddFound(Found{Property: "C17", Kind: "watch-realtime", Sig: "watch-realtime", Detail: fmt.Sprintf("unsubscribe of the stalled watcher %d ms after the second publish: %s", off, v), Case: raw,
						Core: "watch-realtime|unsubscribe-of-stalled-watcher-during-timed-send|" + stripDigits(firstWordsOf(v, 8))})
				}
			}
			if env.Shard == 0 {
				res.Completed = append(res.Completed, "c17r/offsets-0..300ms-step-10")
			}
			return res
		},
		Reproduce: func(f *Found) (bool, error) {
			if strings.Contains(string(f.Case), "realtime_offset_ms") {
				var c map[string]int
				if err := json.Unmarshal(f.Case, &c); err != nil {
					return false, err
				}
				// the window is hit or missed depending on the ticker's phase: try the neighbourhood too
				for _, d := range []int{0, 10, -10, 20, -20, 30, 40, 50} {
					if o := c["realtime_offset_ms"] + d; o >= 0 && c17RealTime(o) != "" {
						return true, nil
					}
				}
				return false, nil
			}
			out := filepath.Join(os.TempDir(), fmt.Sprintf("c17-repro-%d.json", os.Getpid()))
			defer os.Remove(out)
			test := "TestC17"
			if strings.Contains(string(f.Case), `"scenario"`) {
				test = "TestC17S"
			}
			r, err := c17Exec(test, []string{"-case", string(f.Case)}, out, time.Minute)
			if err != nil {
				return false, err
			}
			return len(r.Found) > 0, nil
		},
	})
}

// c17RealTime runs TestC17R for one offset in a child process and returns the
// verdict ("" = fine).
func c17RealTime(offsetMs int) string {
	cmd := exec.Command(c17Binary(), "-test.run", "^TestC17R$", "-test.timeout", "120s", "-offset", fmt.Sprint(offsetMs))
	b, err := cmd.CombinedOutput()
	text := string(b)
	if err == nil && strings.Contains(text, "C17R-OK") {
		return ""
	}
	if i := strings.Index(text, "panic: "); i >= 0 {
		return firstLineOf(text[i:])
	}
	if i := strings.Index(text, "fatal error: "); i >= 0 {
		return firstLineOf(text[i:])
	}
	if i := strings.Index(text, "C17R-VERDICT: "); i >= 0 {
		return firstLineOf(text[i+len("C17R-VERDICT: "):])
	}
	if err != nil {
		return "child failed: " + firstLineOf(truncateStr(text, 300))
	}
	return ""
}

func firstWordsOf(s string, n int) string {
	if s == "" {
		return "ok"
	}
	f := strings.Fields(s)
	if len(f) > n {
		f = f[:n]
	}
	return strings.Join(f, " ")
}
