package checks

import (
	"encoding/json"
	"fmt"
	"os"
	"os/exec"
	"path/filepath"
	"strings"
	"time"
)

// C17 runs in a test binary (testing/synctest needs *testing.T): see
// mc/pubsubmc/c17_test.go. This file only launches it and converts the result.

type c17result struct {
	Evaluations int            `json:"evaluations"`
	Nontrivial  int            `json:"nontrivial"`
	Outcomes    map[string]int `json:"outcomes"`
	Samples     []any          `json:"samples"`
	Found       []struct {
		Kind, Detail, Case, Core string
	} `json:"found"`
	Incomplete []string `json:"incomplete"`
	Completed  []string `json:"completed"`
}

func c17Binary() string { return VerifDir() + "/.build/c17.test" }

func c17Exec(test string, args []string, out string, limit time.Duration) (*c17result, error) {
	cmd := exec.Command(c17Binary(), append([]string{"-test.run", "^" + test + "$", "-test.timeout", fmt.Sprintf("%ds", int(limit.Seconds())+60), "-out", out}, args...)...)
	// The child enforces its own deadline (-test.timeout); tell the worker's
	// watchdog that waiting for it is not a hang.
	stop := make(chan struct{})
	go func() {
		for {
			select {
			case <-stop:
				return
			case <-time.After(2 * time.Second):
				Progress.Add(1)
			}
		}
	}()
	b, err := cmd.CombinedOutput()
	close(stop)
	if err != nil {
		tail := string(b)
		if len(tail) > 3000 {
			tail = tail[:1500] + "\n...\n" + tail[len(tail)-1500:]
		}
		return nil, fmt.Errorf("c17.test: %v\n%s", err, tail)
	}
	raw, err := os.ReadFile(out)
	if err != nil {
		return nil, err
	}
	var r c17result
	if err := json.Unmarshal(raw, &r); err != nil {
		return nil, err
	}
	return &r, nil
}

func init() {
	register(&Check{
		ID:    "C17",
		Level: "exploration",
		Rule: "the real pubsub.PubSub inside testing/synctest bubbles (virtual clock; the batch publisher goroutine, its ticker and the publish timeouts settle deterministically): " +
			"EVERY interleaving, at call granularity, of S subscribers' [Subscribe, Unsubscribe] programs, P publishers' [Publish(DocChanged) x m] programs and up to E clock events (advance by the batch window / by the publish timeout) " +
			"for (S,P,m,E) in {(1,1,1,2),(1,1,3,2),(2,1,1,2),(2,1,2,2),(1,2,1,2),(1,2,2,2),(2,2,1,1),(2,2,2,1)}, m = publishes per publisher (the batch publisher keeps at most two pending events per actor, so 3 by one actor and 2+1 by two reach its de-duplication; thorough up to 3 subscribers / 3 publishers / 3 publishes / 3 clock events), times every subset of stalled consumers (never read until the end; self-prune threshold lowered to 2 failures); " +
			"oracle: a subscriber whose Subscribe returned before a Publish was called and that stays subscribed for window + k*timeout of virtual time afterwards reads a notification of that actor (stalled consumer: any notification read after the publish) or sees its channel closed; " +
			"nothing published after its Unsubscribe is read; ClientIDs is empty once all have unsubscribed and no goroutine stays blocked when the bubble ends (synctest's own check); no panic; non-trivial = sequences with >= 3 programs; " +
			"(b) concurrent calls: Subscribe/Unsubscribe/Publish (and a clock thread that lets the batch publisher flush) as threads of the cooperative scheduler, one execution per synctest bubble; scheduling points = every exported pkg/cmap operation (verif hook; an operation running a callback under its shard lock is one point) and thread start/end; " +
			"7 scenarios of 2-3 threads (first-in / last-out races, re-subscribe, pending batch), ALL schedules with at most 3 preemptions (thorough: unbounded, plus 3 larger scenarios); " +
			"oracle: no panic, no deadlock, a watcher whose Subscribe returned before a Publish was called and that has not asked to leave is told within 3 windows or its stream is closed, ClientIDs empty and every channel closed after everybody left, no goroutine left blocked (a batch publisher of a document nobody watches)",
		Assume: []string{"part (a): interleaving is at the granularity of the three API calls; part (b): at the granularity of cmap operations (each holds its shard lock for its whole duration, so it is atomic); the subscription mutex and the batch publisher mutex are not scheduling points (no code path holds one of them across a cmap operation by another thread)",
			"a goroutine waiting for a sync.Mutex is not durably blocked for synctest: before a stalled consumer is unsubscribed the pending timed sends to it are allowed to time out first (see the harness comment)"},
		QuickBudget: 120 * time.Second,
		Run: func(env *Env) *Result {
			res := NewResult()
			out := filepath.Join(os.TempDir(), fmt.Sprintf("c17-%d-%d.json", os.Getpid(), env.Shard))
			defer os.Remove(out)
			// (a) call-granular interleavings with virtual time, (b) interleavings of
			// the calls' internal steps under the cooperative scheduler
			for _, test := range []string{"TestC17", "TestC17S"} {
				budget := time.Until(env.Deadline)
				r, err := c17Exec(test, []string{"-tier", env.Tier, "-shard", fmt.Sprint(env.Shard), "-shards", fmt.Sprint(env.NShards), "-budget", fmt.Sprintf("%.0f", budget.Seconds())}, out, budget)
				if err != nil {
					if strings.Contains(err.Error(), "blocked goroutines remain") {
						res.AddFound(Found{Property: "C17", Kind: "goroutine-leak", Sig: "goroutine-leak", Detail: err.Error(), Core: "goroutine-leak|bubble ended with blocked goroutines"})
						return res
					}
					res.HarnessErr = append(res.HarnessErr, err.Error())
					return res
				}
				res.Evaluations += r.Evaluations
				res.Nontrivial += r.Nontrivial
				for k, v := range r.Outcomes {
					res.Outcomes[k] += v
				}
				for _, s := range r.Samples {
					res.Sample(s)
				}
				res.Incomplete = append(res.Incomplete, r.Incomplete...)
				res.Completed = append(res.Completed, r.Completed...)
				for _, f := range r.Found {
					res.AddFound(Found{Property: "C17", Kind: f.Kind, Sig: f.Kind, Detail: f.Detail, Case: json.RawMessage(f.Case), Core: f.Core})
				}
				if test == "TestC17S" {
					res.Count("schedules_of_internal_steps", r.Evaluations)
				}
			}
			return res
		},
		Reproduce: func(f *Found) (bool, error) {
			out := filepath.Join(os.TempDir(), fmt.Sprintf("c17-repro-%d.json", os.Getpid()))
			defer os.Remove(out)
			test := "TestC17"
			if strings.Contains(string(f.Case), `"scenario"`) {
				test = "TestC17S"
			}
			r, err := c17Exec(test, []string{"-case", string(f.Case)}, out, time.Minute)
			if err != nil {
				return false, err
			}
			return len(r.Found) > 0, nil
		},
	})
}
