package checks

import (
	"encoding/json"
	"fmt"
	"os"
	"os/exec"
	"path/filepath"
	"strings"
	"time"
)

// C17 runs in a test binary (testing/synctest needs *testing.T): see
// mc/pubsubmc/c17_test.go. This file only launches it and converts the result.

type c17result struct {
	Evaluations int            `json:"evaluations"`
	Nontrivial  int            `json:"nontrivial"`
	Outcomes    map[string]int `json:"outcomes"`
	Samples     []any          `json:"samples"`
	Found       []struct {
		Kind, Detail, Case, Core string
	} `json:"found"`
	Incomplete []string `json:"incomplete"`
	Completed  []string `json:"completed"`
}

func c17Binary() string { return VerifDir() + "/.build/c17.test" }

func c17Exec(args []string, out string, limit time.Duration) (*c17result, error) {
	cmd := exec.Command(c17Binary(), append([]string{"-test.run", "TestC17", "-test.timeout", fmt.Sprintf("%ds", int(limit.Seconds())+60), "-out", out}, args...)...)
	// The child enforces its own deadline (-test.timeout); tell the worker's
	// watchdog that waiting for it is not a hang.
	stop := make(chan struct{})
	go func() {
		for {
			select {
			case <-stop:
				return
			case <-time.After(2 * time.Second):
				Progress.Add(1)
			}
		}
	}()
	b, err := cmd.CombinedOutput()
	close(stop)
	if err != nil {
		tail := string(b)
		if len(tail) > 3000 {
			tail = tail[:1500] + "\n...\n" + tail[len(tail)-1500:]
		}
		return nil, fmt.Errorf("c17.test: %v\n%s", err, tail)
	}
	raw, err := os.ReadFile(out)
	if err != nil {
		return nil, err
	}
	var r c17result
	if err := json.Unmarshal(raw, &r); err != nil {
		return nil, err
	}
	return &r, nil
}

func init() {
	register(&Check{
		ID:    "C17",
		Level: "exploration",
		Rule: "the real pubsub.PubSub inside testing/synctest bubbles (virtual clock; the batch publisher goroutine, its ticker and the publish timeouts settle deterministically): " +
			"EVERY interleaving, at call granularity, of S subscribers' [Subscribe, Unsubscribe] programs, P publishers' [Publish(DocChanged) x m] programs and up to E clock events (advance by the batch window / by the publish timeout) " +
			"for (S,P,m,E) in {(1,1,1,2),(1,1,3,2),(2,1,1,2),(2,1,2,2),(1,2,1,2),(1,2,2,2),(2,2,1,1),(2,2,2,1)}, m = publishes per publisher (the batch publisher keeps at most two pending events per actor, so 3 by one actor and 2+1 by two reach its de-duplication; thorough up to 3 subscribers / 3 publishers / 3 publishes / 3 clock events), times every subset of stalled consumers (never read until the end; self-prune threshold lowered to 2 failures); " +
			"oracle: a subscriber whose Subscribe returned before a Publish was called and that stays subscribed for window + k*timeout of virtual time afterwards reads a notification of that actor (stalled consumer: any notification read after the publish) or sees its channel closed; " +
			"nothing published after its Unsubscribe is read; ClientIDs is empty once all have unsubscribed and no goroutine stays blocked when the bubble ends (synctest's own check); no panic; non-trivial = sequences with >= 3 programs",
		Assume: []string{"interleaving is at the granularity of the three API calls; preemption INSIDE Subscribe/Unsubscribe/Publish (cmap shard locks) is not explored here",
			"a goroutine waiting for a sync.Mutex is not durably blocked for synctest: before a stalled consumer is unsubscribed the pending timed sends to it are allowed to time out first (see the harness comment)"},
		QuickBudget: 120 * time.Second,
		Run: func(env *Env) *Result {
			res := NewResult()
			out := filepath.Join(os.TempDir(), fmt.Sprintf("c17-%d-%d.json", os.Getpid(), env.Shard))
			defer os.Remove(out)
			budget := time.Until(env.Deadline)
			r, err := c17Exec([]string{"-tier", env.Tier, "-shard", fmt.Sprint(env.Shard), "-shards", fmt.Sprint(env.NShards), "-budget", fmt.Sprintf("%.0f", budget.Seconds())}, out, budget)
			if err != nil {
				if strings.Contains(err.Error(), "blocked goroutines remain") {
					res.AddFound(Found{Property: "C17", Kind: "goroutine-leak", Sig: "goroutine-leak", Detail: err.Error(), Core: "goroutine-leak|bubble ended with blocked goroutines"})
					return res
				}
				res.HarnessErr = append(res.HarnessErr, err.Error())
				return res
			}
			res.Evaluations, res.Nontrivial = r.Evaluations, r.Nontrivial
			for k, v := range r.Outcomes {
				res.Outcomes[k] = v
			}
			for _, s := range r.Samples {
				res.Sample(s)
			}
			res.Incomplete, res.Completed = r.Incomplete, r.Completed
			for _, f := range r.Found {
				res.AddFound(Found{Property: "C17", Kind: f.Kind, Sig: f.Kind, Detail: f.Detail, Case: json.RawMessage(f.Case), Core: f.Core})
			}
			return res
		},
		Reproduce: func(f *Found) (bool, error) {
			out := filepath.Join(os.TempDir(), fmt.Sprintf("c17-repro-%d.json", os.Getpid()))
			defer os.Remove(out)
			r, err := c17Exec([]string{"-case", string(f.Case)}, out, time.Minute)
			if err != nil {
				return false, err
			}
			return len(r.Found) > 0, nil
		},
	})
}
