package checks

import (
	"encoding/json"
	"errors"
	"fmt"
	"strings"
	"time"

	"github.com/yorkie-team/yorkie/api/types"
	"github.com/yorkie-team/yorkie/pkg/document"
	yjson "github.com/yorkie-team/yorkie/pkg/document/json"
	"github.com/yorkie-team/yorkie/pkg/key"

	"verifmc/hist"
)

var c08Alphabet = []string{"o.set1", "o.del1", "o.setobj1", "o.setin1", "a.push", "a.delL", "a.mv0L", "a.setL", "a.ins0",
	"t.insM", "t.delF", "t.styF", "t.repM", "c.inc1", "tr.insT1", "tr.delP0", "tr.sty0", "tr.insP0", "p.set1"}

var c08Fail = []string{"error", "panic", "schema", "size"}

type c08case struct {
	Prefix []string `json:"prefix"`
	Ops    []string `json:"ops"`
	Fail   string   `json:"fail"`
	Pos    int      `json:"pos"`
	Next   string   `json:"next"`
}

func c08NewDoc() *document.Document {
	d := document.New(key.Key("c08-doc"))
	drainEvents(d.Events())
	_ = d.Update(func(r *yjson.Object, p *document.Presence) error {
		for _, op := range []string{"init.o", "init.a", "init.t", "init.c", "init.tr"} {
			hist.Ops[op].Apply(r, p, 0)
		}
		r.SetInteger("guard", 1)
		return nil
	})
	d.SchemaRules = []types.Rule{{Path: "$.guard", Type: "integer"}}
	return d
}

func c08Apply(d *document.Document, op string, v int) error {
	return d.Update(func(r *yjson.Object, p *document.Presence) error {
		hist.Ops[op].Apply(r, p, v)
		return nil
	})
}

type c08snap struct {
	marshal, root, cp, vv, pres string
	changes, undo               int
	canUndo, canRedo            bool
}

func c08Snap(d *document.Document) c08snap {
	pack := d.CreateChangePack()
	pb, _ := json.Marshal(d.AllPresences())
	return c08snap{
		marshal: d.Marshal(), root: d.Root().Marshal(), cp: d.Checkpoint().String(), vv: d.VersionVector().Marshal(),
		pres: string(pb), changes: len(pack.Changes), undo: d.UndoStackLenForTest(), canUndo: d.CanUndo(), canRedo: d.CanRedo(),
	}
}

var errC08 = errors.New("updater failed on purpose")

// c08Failing runs the failing update and reports whether it failed as intended.
func c08Failing(d *document.Document, c *c08case) (failed bool, detail string) {
	if c.Fail == "size" {
		sz := d.DocSize()
		d.MaxSizeLimit = sz.Total() + 600
		defer func() { d.MaxSizeLimit = 0 }()
	}
	var err error
	panicked := false
	func() {
		defer func() {
			if r := recover(); r != nil {
				panicked = true
			}
		}()
		err = d.Update(func(r *yjson.Object, p *document.Presence) error {
			for j := 0; j <= len(c.Ops); j++ {
				if j == c.Pos {
					switch c.Fail {
					case "error":
						return errC08
					case "panic":
						panic("updater panicked on purpose")
					case "schema":
						r.SetString("guard", "not-an-integer")
					case "size":
						r.SetString("big", strings.Repeat("x", 2000))
					}
				}
				if j < len(c.Ops) {
					hist.Ops[c.Ops[j]].Apply(r, p, 100+j)
				}
			}
			return nil
		})
	}()
	switch c.Fail {
	case "panic":
		return panicked, fmt.Sprint("panicked=", panicked)
	default:
		return err != nil, fmt.Sprint("err=", err)
	}
}

func c08Eval(c *c08case) string {
	defer releaseDocs()
	d := c08NewDoc()
	twin := c08NewDoc()
	for i, op := range c.Prefix {
		if err := c08Apply(d, op, 10+i); err != nil {
			return "" // prefix not applicable
		}
		_ = c08Apply(twin, op, 10+i)
	}
	before := c08Snap(d)
	failed, how := c08Failing(d, c)
	if !failed {
		return "failing update did not fail: " + how
	}
	after := c08Snap(d)
	if before != after {
		return fmt.Sprintf("state changed by a failed update (%s)\nbefore: %+v\nafter:  %+v", how, before, after)
	}
	if after.root != after.marshal {
		return fmt.Sprintf("Root() != Marshal() after failed update\nRoot():    %s\nMarshal(): %s", after.root, after.marshal)
	}
	// a second failure in a row: the working copy was re-created from the root
	// after the first one and must be as independent of it as the first copy was
	if failed2, how2 := c08Failing(d, c); failed2 {
		if after2 := c08Snap(d); before != after2 {
			return fmt.Sprintf("state changed by the second of two failed updates in a row (%s)\nbefore: %+v\nafter:  %+v", how2, before, after2)
		}
	}
	// the next successful update behaves as on an untouched document
	e1 := c08Apply(d, c.Next, 200)
	e2 := c08Apply(twin, c.Next, 200)
	if (e1 == nil) != (e2 == nil) {
		return fmt.Sprintf("next update: %v vs twin %v", e1, e2)
	}
	s1, s2 := c08Snap(d), c08Snap(twin)
	if s1 != s2 {
		return fmt.Sprintf("next update (%s) differs from the untouched twin\ndoc:  %+v\ntwin: %+v", c.Next, s1, s2)
	}
	if s1.root != s1.marshal {
		return fmt.Sprintf("Root() != Marshal() after next update\nRoot():    %s\nMarshal(): %s", s1.root, s1.marshal)
	}
	return ""
}

func c08Run(env *Env) *Result {
	// (ii) first: clone == root after every event of multi-replica histories
	// (the smaller part; part (i) below fills whatever budget is left)
	res := RunH(c08HSpec, env)
	al := c08Alphabet
	maxPrefix := 1
	if env.Tier == "thorough" {
		maxPrefix = 2
	}
	var prefixes [][]string
	prefixes = append(prefixes, nil)
	for _, a := range al {
		prefixes = append(prefixes, []string{a})
	}
	if maxPrefix >= 2 {
		for _, a := range al {
			for _, b := range al {
				prefixes = append(prefixes, []string{a, b})
			}
		}
	}
	var opsets [][]string
	for _, a := range al {
		opsets = append(opsets, []string{a})
	}
	for _, a := range al {
		for _, b := range al {
			opsets = append(opsets, []string{a, b})
		}
	}
	job := 0
	incomplete := false
outer:
	for _, pre := range prefixes {
		for _, ops := range opsets {
			job++
			if job%env.NShards != env.Shard {
				continue
			}
			if env.Expired() {
				incomplete = true
				break outer
			}
			for _, fail := range c08Fail {
				for pos := 0; pos <= len(ops); pos++ {
					for ni, next := range al {
						// the follow-up alphabet is sampled by stride for 2-op bodies to bound the product
						if len(ops) == 2 && len(pre) > 0 && ni%3 != (job+pos)%3 {
							continue
						}
						c := &c08case{Prefix: pre, Ops: ops, Fail: fail, Pos: pos, Next: next}
						raw, _ := json.Marshal(c)
						if res.Evaluations%256 == 0 {
							env.Current(&Found{Property: "C08", Case: raw})
						}
						diff := c08Eval(c)
						res.Evaluations++
						if pos > 0 {
							res.Nontrivial++ // the callback had already edited the clone when it failed
						}
						res.Outcome(fail + "@" + fmt.Sprint(pos) + "/" + fmt.Sprint(len(ops)))
						if diff != "" {
							res.AddFound(Found{Property: "C08", Kind: "update-not-atomic", Sig: "update-not-atomic:" + fail,
								Detail: fmt.Sprintf("%s\ncase: %s", diff, raw), Case: raw,
								Core: fmt.Sprintf("update-not-atomic|%s|edited-before-failure=%v", fail, pos > 0)})
						} else if len(res.Samples) < 3 && pos > 0 && job%50 == 0 {
							res.Sample(c)
						}
					}
				}
			}
		}
	}
	if incomplete {
		res.Incomplete = append(res.Incomplete, "c08/failing-updates")
	} else if env.Shard == 0 {
		res.Completed = append(res.Completed, fmt.Sprintf("c08/failing-updates/prefix<=%d/body<=2", maxPrefix))
	}
	return res
}

func cloneEqRootObserver(x *hist.Exec, i int) {
	for _, rep := range x.Reps {
		if !rep.Attached || rep.SyncErrs > 0 {
			continue
		}
		if a, b := rep.Doc.Root().Marshal(), rep.Doc.Marshal(); a != b {
			x.Viol = append(x.Viol, hist.Violation{Kind: "clone-ne-root", Sig: "clone-ne-root",
				Detail: fmt.Sprintf("after event %d (%s) client %d\nRoot():    %s\nMarshal(): %s", i, x.Hist[i], rep.Role, a, b)})
			return
		}
		pa, _ := json.Marshal(rep.Doc.AllPresences())
		pb, _ := json.Marshal(rep.Doc.InternalDocument().AllPresences())
		if string(pa) != string(pb) {
			x.Viol = append(x.Viol, hist.Violation{Kind: "clone-ne-root", Sig: "clone-ne-root:presence", Detail: fmt.Sprintf("%s vs %s", pa, pb)})
			return
		}
	}
}

var c08HSpec = &HSpec{ID: "C08",
	Scenarios: func(tier string) []*hist.Scenario {
		var out []*hist.Scenario
		for _, f := range coreFamilies() {
			for _, op := range f.ops {
				for _, th := range []int64{hist.Big, 1} {
					tag := ""
					if th == 1 {
						tag = "/snap1-1"
					}
					// N2K2U1Y2 is 1.0k histories per kind, N2K2U1Y3 3.4k
					y := 2
					if tier == "thorough" {
						y = 3
					}
					out = append(out, &hist.Scenario{Name: fmt.Sprintf("c08/cloneroot/%s/%s%s/N2K2U1Y%d", f.name, op, tag, y),
						N: 2, Init: f.init, Alphabet: []string{op}, K: 2, U: 1, Y: y, Cfg: hist.Config{Threshold: th, Interval: th}})
				}
			}
		}
		// re-cloning must be transparent: a failed update (the working copy is
		// thrown away and deep-copied from the root again) at every position of
		// histories in which the two clients' edits are concurrent and one of
		// them is undone - the copy then has to resolve later remote changes
		// exactly like the root (seeded change C08-2: a copy that loses a
		// position timestamp marshals identically and decides LWW differently)
		rec := []struct {
			name string
			init []string
			als  [][]string
		}{
			{"obj", []string{"init.oo"}, [][]string{{"o.del1", "o.set1"}, {"o.set1", "o.setobj1"}, {"o.del1", "o.setin1"}}},
			{"arr", []string{"init.a"}, [][]string{{"a.delL", "a.mv0L"}, {"a.mv0L", "a.ins0"}, {"a.del0", "a.setL"}}},
			{"txt", []string{"init.t"}, [][]string{{"t.delM", "t.insM"}, {"t.delF", "t.styF"}}},
			{"tree", []string{"init.tr"}, [][]string{{"tr.delP0", "tr.insT1"}, {"tr.delT0", "tr.sty0"}}},
			{"cnt", []string{"init.c"}, [][]string{{"c.inc1"}}},
		}
		for _, f := range rec {
			for i, al := range f.als {
				if tier == "quick" && i > 0 && f.name != "obj" {
					continue
				}
				out = append(out, &hist.Scenario{Name: fmt.Sprintf("c08/reclone/%s/%s/N2K2max1U1F1Y2", f.name, strings.Join(al, "+")),
					N: 2, Init: f.init, Alphabet: al, K: 2, MaxPerClient: 1, U: 1, F: 1, Y: 2, Cfg: hist.Config{Threshold: hist.Big, Interval: hist.Big}})
			}
		}
		// what a REMOVED attribute leaves behind must survive the re-clone too:
		// client 0 styles and removes the style, client 1 concurrently writes the
		// same attribute with an older ticket; wherever the failed update falls,
		// the copy has to ignore that write exactly like the root does (seeded
		// change C08-4: a copy that drops the tombstones of an attribute table
		// without live entries)
		out = append(out, &hist.Scenario{Name: "c08/reclone/tree/removed-attribute/tr.sty0+tr.rmsty0|tr.sty0/N2K4F1Y2",
			N: 2, Init: []string{"init.tr"}, Alphabet: []string{"tr.sty0", "tr.rmsty0"}, PerClient: [][]string{{"tr.sty0", "tr.rmsty0"}, {"tr.sty0"}},
			K: 4, EditCaps: []int{3, 1}, F: 1, Y: 2, Cfg: hist.Config{Threshold: hist.Big, Interval: hist.Big}})
		return out
	},
	Eval: func(r *hist.Runner, sc *hist.Scenario, h []hist.Event, res *Result) ([]hist.Violation, bool) {
		r.AfterEvent = []func(x *hist.Exec, i int){cloneEqRootObserver}
		x := r.Run(sc, sc.Cfg, h)
		r.AfterEvent = nil
		defer x.Close()
		if n := len(x.Steps); n > 0 && x.Steps[n-1].NoEffect {
			return nil, true
		}
		x.Quiesce()
		if !x.Aborted {
			cloneEqRoot(x)
		}
		var viol []hist.Violation
		for _, v := range x.Viol {
			if v.Kind == "clone-ne-root" || v.Kind == "panic" || v.Kind == "harness" || v.Kind == "failed-update" {
				viol = append(viol, v)
			}
		}
		return viol, false
	},
}

func c08Reproduce(f *Found) (bool, error) {
	if f.Hist != nil {
		return ReproduceH(c08HSpec)(f)
	}
	var c c08case
	if err := json.Unmarshal(f.Case, &c); err != nil {
		return false, err
	}
	return c08Eval(&c) != "", nil
}

func init() {
	register(&Check{
		ID:    "C08",
		Level: "exploration",
		Rule: "(i) every (prefix of <=1 [thorough 2] successful single-op updates) x (failing update body of 1-2 ops from a 19-kind mixed alphabet over object/array/text/counter/tree/presence) x " +
			"(failure kind: returned error, panic, schema rule violation, size limit) x (EVERY position of the failure inside the body) x (follow-up update kind): " +
			"Marshal, Root(), pending change count, checkpoint, version vector, presences, undo depth and CanUndo/CanRedo are compared before/after the failed update, and the follow-up update is compared with a twin document that never saw the failure; " +
			"(ii) Root()==Marshal() and equal presences after EVERY event of all normal-form 2-client histories (K<=2 edits, 1 undo/redo, Y<=3 syncs, snapshots never/always) through the real server; " +
			"non-trivial = the callback had already edited when it failed (i) / concurrent edits (ii)",
		Assume:      []string{"follow-up kinds are strided (1 of 3) for two-op bodies after a non-empty prefix"},
		QuickBudget: 300 * time.Second,
		Run:         c08Run,
		Reproduce:   c08Reproduce,
		Minimise: func(f *Found) *Found {
			if f.Hist != nil {
				return MinimiseH(c08HSpec)(f)
			}
			return f
		},
	})
}
