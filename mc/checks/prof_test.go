package checks

import (
	"testing"
	"time"
)

func TestProfC01(t *testing.T) {
	env := &Env{Tier: "quick", Shard: 0, NShards: 16, Deadline: time.Now().Add(10 * time.Second)}
	res := Registry["C01"].Run(env)
	t.Logf("evals=%d", res.Evaluations)
}
