package checks

import (
	"fmt"
	"strings"
	"time"

	"verifmc/hist"
)

// C14/C15 alphabet: content edits that have a reverse operation, plus styles
// and array moves/sets whose restoration is only approximate.
var undoFamilies = []family{
	{"obj", []string{"init.o"}, []string{"o.set1", "o.del1", "o.setobj1", "o.setin1"}},
	{"arr", []string{"init.a"}, []string{"a.push", "a.ins0", "a.delL", "a.del0", "a.mv0L", "a.setL"}},
	{"txt", []string{"init.t"}, []string{"t.insM", "t.ins0", "t.delF", "t.delM", "t.repM", "t.styF"}},
	{"cnt", []string{"init.c"}, []string{"c.inc1", "c.incv"}},
	{"tree", []string{"init.tr"}, []string{"tr.insT1", "tr.delT0", "tr.insP0", "tr.delP0", "tr.sty0"}},
}

func c15Scenarios(tier string) []*hist.Scenario {
	var out []*hist.Scenario
	never := hist.Config{Threshold: hist.Big, Interval: hist.Big}
	single := func(k, u, y int) {
		for _, f := range undoFamilies {
			for _, op := range f.ops {
				out = append(out, &hist.Scenario{Name: fmt.Sprintf("c15/%s/%s/N2K%dU%dY%d", f.name, op, k, u, y),
					N: 2, Init: f.init, Alphabet: []string{op}, K: k, U: u, Y: y, Cfg: never})
			}
		}
	}
	pair := func(k, u, y, maxPer int) {
		for _, f := range undoFamilies {
			for _, al := range pairs(f.ops) {
				if len(al) == 1 {
					continue
				}
				tag := ""
				if maxPer > 0 {
					tag = fmt.Sprintf("M%d", maxPer)
				}
				out = append(out, &hist.Scenario{Name: fmt.Sprintf("c15/%s/%s/N2K%dU%dY%d%s", f.name, strings.Join(al, "+"), k, u, y, tag),
					N: 2, Init: f.init, Alphabet: al, K: k, U: u, Y: y, MaxPerClient: maxPer, Cfg: never})
			}
		}
	}
	// Smallest shapes first (histories in normal form before no-effect pruning,
	// `vcheck countshape`): single kind K1U2Y2 1.8k, K2U1Y2 1.0k, K2U2Y2 6.6k,
	// K1U3Y2 8.2k, K2U2Y3 26k; pair of kinds K2U1Y2 with one edit per client
	// 1.5k, unrestricted 3.3k, K2U2Y2 one edit per client 10k.
	single(1, 2, 2)
	pair(2, 1, 2, 1)
	// "including after garbage collection on the peers": enough syncs before the
	// undo for BOTH replicas to have purged the tombstones the undo refers to
	// (edit, author syncs, peer syncs twice, author syncs, undo: 2.6k shapes per kind)
	single(1, 1, 4)
	// two edits before the undo and a peer that has collected garbage: the
	// reverse operation of the SECOND edit may have been built next to the
	// tombstone of the first (arrays in the quick tier: 3.4k shapes per kind)
	for _, f := range undoFamilies {
		if f.name != "arr" && tier == "quick" {
			continue
		}
		for _, op := range f.ops {
			out = append(out, &hist.Scenario{Name: fmt.Sprintf("c15/%s/%s/N2K2U1Y3", f.name, op),
				N: 2, Init: f.init, Alphabet: []string{op}, K: 2, U: 1, Y: 3, Cfg: never})
		}
	}
	// undo of the deletion of a node that was inserted in front of an older
	// sibling, after the peer has collected its tombstone: the peer has to
	// recreate the node from what the undo change carries (seeded change C09-4:
	// an anchor lost in the encoding of the restore span). One client edits, the
	// other only syncs; both role assignments
	for _, tr := range [][]string{{"tr.insP0", "tr.delP0"}, {"tr.insT0", "tr.delT0"}, {"a.ins0", "a.del0"}, {"t.ins0", "t.delF"}} {
		init := map[byte]string{'a': "init.a", 't': "init.t"}[tr[0][0]]
		if strings.HasPrefix(tr[0], "tr.") {
			init = "init.tr"
		}
		for swap := 0; swap < 2; swap++ {
			pc := [][]string{tr, {}}
			if swap == 1 {
				pc[0], pc[1] = pc[1], pc[0]
			}
			out = append(out, &hist.Scenario{Name: fmt.Sprintf("c15/restore-front/%s/swap%d/N2K2U1Y3", strings.Join(tr, "+"), swap),
				N: 2, Init: []string{init}, Alphabet: tr, PerClient: pc, K: 2, U: 1, Y: 3, Cfg: never})
		}
	}
	if tier == "quick" {
		return out
	}
	single(2, 1, 2)
	single(2, 2, 2)
	pair(2, 1, 2, 0)
	single(1, 3, 2)
	pair(2, 2, 2, 1)
	single(2, 2, 3)
	single(1, 1, 5)
	single(1, 2, 4)
	return out
}

func c15Eval(r *hist.Runner, sc *hist.Scenario, h []hist.Event, res *Result) ([]hist.Violation, bool) {
	x := r.Run(sc, sc.Cfg, h)
	defer x.Close()
	if n := len(x.Steps); n > 0 && x.Steps[n-1].NoEffect {
		return nil, true
	}
	x.Quiesce()
	convergenceOracle(x)
	if len(x.Viol) == 0 && x.Quiesced {
		cloneEqRoot(x)
	}
	if res != nil {
		und := false
		for _, e := range h {
			if e.K == "un" || e.K == "re" {
				und = true
			}
		}
		if und {
			res.Count("executions_with_undo_redo", 1)
		}
		if len(x.Viol) == 0 && len(x.Reps) > 0 {
			res.Outcome(sc.Init[0] + "|" + x.Reps[0].Doc.Marshal())
		}
		res.Count("gc_purged_nodes", x.Purged)
	}
	return x.Viol, false
}

func init() {
	spec := &HSpec{ID: "C15", Scenarios: c15Scenarios, Eval: c15Eval}
	registerH(spec, &Check{
		Level: "exploration",
		Rule: "every normal-form history of 2 clients with <=K edits (C14 alphabet, single kinds and pairs per data type), <=U undo/redo calls (each only when CanUndo/CanRedo), <=Y syncs at every placement, GC on; " +
			"oracle: C01's (no sync error, replicas byte-identical after the quiescent closure and equal to the server rebuild) plus clone==root; non-trivial = concurrent edits/undos by different clients",
		Assume:      []string{"memdb backend", "small-scope bounds per scenario name"},
		QuickBudget: 300 * time.Second,
	})
}
