package checks

import (
	"context"
	"fmt"
	"math"
	"strings"
	"time"

	"verifmc/hist"
)

func c10Scenarios(tier string) []*hist.Scenario {
	var out []*hist.Scenario
	never := hist.Config{Threshold: hist.Big, Interval: hist.Big}
	fams := []family{
		{"obj", []string{"init.o"}, []string{"o.set1", "o.del1", "o.setobj1"}},
		{"arr", []string{"init.a"}, []string{"a.push", "a.delL", "a.mv0L"}},
		{"txt", []string{"init.t"}, []string{"t.insM", "t.delF", "t.styF"}},
		{"cnt", []string{"init.c"}, []string{"c.inc1", "c.incmax"}},
		{"tree", []string{"init.tr"}, []string{"tr.insT1", "tr.delP0", "tr.sty0"}},
		// documents whose content is (or becomes again) {}: the compacted log is empty
		{"empty", []string{"init.none"}, []string{"o.newroot"}},
		{"emptied", []string{"init.o"}, []string{"o.delroot"}},
	}
	add := func(f family, op string, k, y, e, d int) {
		out = append(out, &hist.Scenario{
			Name: fmt.Sprintf("c10/%s/%s/N2K%dY%dE%dD%d", f.name, op, k, y, e, d),
			N:    2, Init: f.init, Alphabet: []string{op}, K: k, Y: y, D: d,
			Env: []string{"compact", "compactF"}, E: e, Cfg: never,
		})
	}
	// push-only syncs of stale clients: edit, forced compaction, push-only sync,
	// full sync (K2 Y3 incl. push-only, one compaction: 7.9k histories per kind)
	for _, f := range fams[:5] {
		n := 1 // 0.8k histories per kind; two clients 8.6k
		if tier == "thorough" {
			n = 2
		}
		out = append(out, &hist.Scenario{
			Name: fmt.Sprintf("c10/%s/%s/pushonly/N%dK2Y3E1", f.name, f.ops[0], n),
			N:    n, Init: f.init, Alphabet: f.ops[:1], K: 2, Y: 3, PushOnly: true,
			Env: []string{"compactF"}, E: 1, Cfg: never,
		})
	}
	// stored snapshots of the old generation: snapshot interval 1 (a snapshot is
	// stored at every push), a forced compaction, a fresh (late) client that
	// pushes until the new log is as long as the old one was, the snapshot cache
	// evicted - the rebuild from the database must not find anything of the old
	// generation (20.7k histories per kind; seeded change C10-4)
	for _, f := range fams[:5] {
		if tier == "quick" && f.name != "arr" {
			continue
		}
		out = append(out, &hist.Scenario{
			Name: fmt.Sprintf("c10/%s/%s/stored-snapshots/N1L1K2Y2E2", f.name, f.ops[0]),
			N:    1, Late: 1, Init: f.init, Alphabet: f.ops[:1], K: 2, Y: 2,
			Env: []string{"compactF", "evict"}, E: 2, Cfg: hist.Config{Threshold: hist.Big, Interval: 1},
		})
	}
	// Upper bounds before no-effect pruning: K2Y2E1D1 12.8k histories, K1Y1E2D2
	// 36.7k, K1Y2E2D2 260k, K2Y2E1D2 165k, K2Y2E2D2 1.1M (count10_test.go).
	for _, f := range fams {
		for oi, op := range f.ops {
			if tier == "quick" {
				if oi == 0 {
					add(f, op, 2, 2, 1, 1)
				}
				if oi == 1 && (f.name == "obj" || f.name == "arr") {
					add(f, op, 1, 1, 2, 2)
				}
				continue
			}
			add(f, op, 2, 2, 1, 1)
			add(f, op, 1, 1, 2, 2)
			if oi == 0 {
				add(f, op, 1, 2, 2, 2)
			}
		}
	}
	return out
}

type c10State struct {
	stale      map[int]bool // replicas attached under an older epoch
	preContent string
	preEpoch   int64
	preLog     int
	preAttach  bool
}

func c10LogLen(x *hist.Exec) int {
	di, err := x.DocInfo()
	if err != nil {
		return -1
	}
	infos, err := x.R.W.BE.DB.FindChangeInfosBetweenServerSeqs(context.Background(), di.RefKey(), 1, math.MaxInt64)
	if err != nil {
		return -1
	}
	return len(infos)
}

// replayHead replays the whole stored log on an empty document (no cache, no
// snapshot): the reference content of the server at the head.
func replayHead(x *hist.Exec) (string, error) {
	di, err := x.DocInfo()
	if err != nil {
		return "", err
	}
	return replayLog(x, di.ServerSeq)
}

func c10Before(x *hist.Exec, i int) {
	st, _ := x.Data["c10"].(*c10State)
	if st == nil {
		st = &c10State{stale: map[int]bool{}}
		x.Data["c10"] = st
	}
	e := x.Hist[i]
	st.preLog = c10LogLen(x)
	if e.K == "compact" || e.K == "compactF" {
		// pure replay of the stored log: unlike a server rebuild it does not
		// touch the snapshot cache, so observing does not repair (or mask) what a
		// later rebuild would see
		st.preContent, _ = replayHead(x)
		if di, err := x.DocInfo(); err == nil {
			st.preEpoch = di.Epoch
		}
		st.preAttach = len(x.AttachedReps()) > 0
	}
}

func c10After(x *hist.Exec, i int) {
	st := x.Data["c10"].(*c10State)
	e := x.Hist[i]
	step := x.Steps[i]
	add := func(kind, sig, detail string) {
		x.Viol = append(x.Viol, hist.Violation{Kind: kind, Sig: sig, Detail: fmt.Sprintf("event %d (%s): %s", i, e, detail)})
	}
	switch e.K {
	case "compact", "compactF":
		done := step.Err == ""
		if e.K == "compact" && done == st.preAttach {
			add("compaction-guard", fmt.Sprintf("compaction-guard:attached=%v:done=%v", st.preAttach, done),
				fmt.Sprintf("normal compaction performed=%v while attached=%v (%s)", done, st.preAttach, step.Err))
		}
		if e.K == "compactF" && !done {
			add("compaction-failed", "compaction-failed:"+hist.NormErr(step.Err), "forced compaction failed: "+step.Err)
		}
		if done {
			di, err := x.DocInfo()
			if err == nil && di.Epoch <= st.preEpoch {
				add("epoch-not-increased", "epoch-not-increased", fmt.Sprintf("epoch %d -> %d", st.preEpoch, di.Epoch))
			}
			post, err := replayHead(x)
			if err != nil {
				add("log-replay-error", "log-replay-error:"+hist.NormErr(err.Error()), err.Error())
			} else if post != st.preContent {
				add("compaction-changed-content", "compaction-changed-content", fmt.Sprintf("before: %s\nafter:  %s", st.preContent, post))
			}
			for _, rep := range x.AttachedReps() {
				st.stale[rep.Role] = true
			}
		} else if c10LogLen(x) != st.preLog {
			add("compaction-refused-but-log-changed", "compaction-refused-but-log-changed", "")
		}
	case "s":
		if step.NoEffect {
			return
		}
		if st.stale[e.C] {
			// must be refused with an epoch mismatch and add nothing to the log
			if step.Err == "" || !strings.Contains(step.Err, "epoch") {
				add("stale-sync-accepted", "stale-sync-accepted:"+hist.NormErr(step.Err), "sync of a stale-epoch client returned: "+step.Err)
			} else {
				// expected error: withdraw the generic sync-error violation of this step
				x.Viol = x.Viol[:step.ViolFrom]
				x.Reps[e.C].SyncErrs--
			}
			if n := c10LogLen(x); n != st.preLog {
				add("stale-sync-stored", "stale-sync-stored", fmt.Sprintf("log length %d -> %d", st.preLog, n))
			}
		}
	case "po":
		if step.NoEffect {
			return
		}
		if st.stale[e.C] {
			// a push-only sync is not told about the new generation (it pulls
			// nothing); it must not store anything, and the client stays stale:
			// its next full sync is still refused (checked at that "s")
			if step.Err != "" && strings.Contains(step.Err, "epoch") {
				x.Viol = x.Viol[:step.ViolFrom]
				x.Reps[e.C].SyncErrs--
			}
			if n := c10LogLen(x); n != st.preLog {
				add("stale-sync-stored", "stale-sync-stored:push-only", fmt.Sprintf("log length %d -> %d", st.preLog, n))
			}
		}
	case "dt":
		if step.NoEffect {
			return
		}
		if st.stale[e.C] && step.Err != "" {
			add("stale-detach-failed", "stale-detach-failed:"+hist.NormErr(step.Err), step.Err)
		}
		if step.Err == "" {
			delete(st.stale, e.C)
		}
	}
}

func c10Eval(r *hist.Runner, sc *hist.Scenario, h []hist.Event, res *Result) ([]hist.Violation, bool) {
	r.BeforeEvent = []func(x *hist.Exec, i int){c10Before}
	r.AfterEvent = []func(x *hist.Exec, i int){c10After}
	x := r.Run(sc, sc.Cfg, h)
	r.BeforeEvent, r.AfterEvent = nil, nil
	defer x.Close()
	if n := len(x.Steps); n > 0 && x.Steps[n-1].NoEffect {
		return nil, true
	}
	st, _ := x.Data["c10"].(*c10State)
	if !x.Aborted && len(x.Viol) == 0 {
		// closure: stale clients detach (must succeed) and come back with a fresh document
		if st != nil {
			for role := range st.stale {
				rep := x.Reps[role]
				if !rep.Attached {
					continue
				}
				s1 := x.StepPublic(hist.Event{K: "dt", C: role})
				if s1.Err != "" {
					x.Viol = append(x.Viol, hist.Violation{Kind: "stale-detach-failed", Sig: "stale-detach-failed:" + hist.NormErr(s1.Err), Detail: s1.Err})
				}
				s2 := x.StepPublic(hist.Event{K: "at", C: role})
				_ = s2
			}
		}
		x.Quiesce()
		// what an admin read / the next compaction / a snapshot pull would rebuild
		// (through the snapshot cache as the history left it) against the pure
		// replay of the stored log
		if len(x.Viol) == 0 {
			ref, e1 := replayHead(x)
			got, e2 := x.ServerMarshal(0)
			if e2 != nil {
				x.Viol = append(x.Viol, hist.Violation{Kind: "server-rebuild-error", Sig: "server-rebuild-error:" + hist.NormErr(e2.Error()), Detail: e2.Error()})
			} else if e1 == nil && ref != got {
				x.Viol = append(x.Viol, hist.Violation{Kind: "diverge", Sig: "diverge:server-rebuild-vs-replay", Detail: fmt.Sprintf("rebuild: %s\nreplay:  %s", got, ref)})
			}
		}
		convergenceOracle(x)
		// a brand-new client sees exactly the server content
		if len(x.Viol) == 0 {
			if m, err := x.FreshAttachMarshal(); err != nil {
				x.Viol = append(x.Viol, hist.Violation{Kind: "fresh-attach-error", Sig: "fresh-attach-error:" + hist.NormErr(err.Error()), Detail: err.Error()})
			} else if sm, err2 := x.ServerMarshal(0); err2 == nil && sm != m {
				x.Viol = append(x.Viol, hist.Violation{Kind: "diverge", Sig: "diverge:fresh-attach", Detail: fmt.Sprintf("fresh attach: %s\nserver:       %s", m, sm)})
			}
		}
	}
	if res != nil {
		nc := 0
		for _, s := range x.Steps {
			if (s.Ev.K == "compact" || s.Ev.K == "compactF") && s.Err == "" {
				nc++
			}
		}
		res.Count("compactions_performed", nc)
		if nc > 0 {
			res.Count("executions_with_compaction", 1)
		}
		if len(x.Viol) == 0 {
			if m, err := x.ServerMarshal(0); err == nil {
				res.Outcome(fmt.Sprintf("%s|%d|%s", sc.Init[0], nc, m))
			}
		}
	}
	return x.Viol, false
}

func init() {
	spec := &HSpec{ID: "C10", Scenarios: c10Scenarios, Eval: c10Eval}
	registerH(spec, &Check{
		Level: "exploration",
		Rule: "every normal-form history of 2 clients with <=K edits, <=Y syncs, <=D detach/attach events and <=E compactions (normal and forced) at every position; " +
			"oracle at every compaction: normal compaction performed iff no client is attached, forced always, epoch strictly increases, server content unchanged; " +
			"afterwards: a stale-epoch sync is refused with an epoch mismatch and adds no log row, a stale detach succeeds, and after the closure " +
			"(stale clients detach and re-attach fresh, quiescent round) all replicas, the server rebuild and a brand-new attacher agree; non-trivial = concurrent edits",
		Assume:      []string{"memdb backend", "compaction is invoked through the cluster RPC exactly as housekeeping/admin do"},
		QuickBudget: 300 * time.Second,
	})
}
