package checks

import (
	"bytes"
	"encoding/json"
	"fmt"
	"math"
	"reflect"
	"regexp"
	"strconv"
	"strings"
	"time"

	"github.com/yorkie-team/yorkie/pkg/document"
	"github.com/yorkie-team/yorkie/pkg/document/crdt"
	yjson "github.com/yorkie-team/yorkie/pkg/document/json"
	"github.com/yorkie-team/yorkie/pkg/document/yson"
	"github.com/yorkie-team/yorkie/pkg/key"

	"verifmc/hist"
)

// ysonRoundTrip runs the export/import cycle used by compaction and revision
// restore on a root object and returns the first disagreement.
func ysonRoundTrip(root *crdt.Object) string {
	var out string
	err, _ := hist.Guard(func() error {
		y, err := yson.FromCRDT(root)
		if err != nil {
			out = "FromCRDT: " + err.Error()
			return nil
		}
		obj, ok := y.(yson.Object)
		if !ok {
			out = fmt.Sprintf("FromCRDT returned %T", y)
			return nil
		}
		out = ysonValueRoundTrip(obj)
		return nil
	})
	if err != nil {
		return "panic: " + firstLineOf(err.Error())
	}
	return out
}

func firstLineOf(s string) string {
	if i := strings.IndexByte(s, '\n'); i >= 0 {
		return s[:i]
	}
	return s
}

func ysonValueRoundTrip(obj yson.Object) string {
	s, err := obj.Marshal()
	if err != nil {
		return "Marshal: " + err.Error()
	}
	// text -> value -> text
	var parsed yson.Object
	if err := yson.Unmarshal(s, &parsed); err != nil {
		return fmt.Sprintf("Unmarshal(Marshal(y)): %v\n  text: %s", err, s)
	}
	s2, err := parsed.Marshal()
	if err != nil {
		return "Marshal(parsed): " + err.Error()
	}
	if s2 != s {
		return fmt.Sprintf("parse(marshal(y)) != y\n  y:      %s\n  parsed: %s", s, s2)
	}
	if !ysonSame(obj, parsed) {
		return fmt.Sprintf("parse(marshal(y)) differs from y in value (the texts agree: Marshal itself is lossy)\n  text: %s", truncateStr(s, 300))
	}
	// value -> new document -> value (what packs.Compact does and compares)
	for _, src := range []yson.Object{obj, parsed} {
		nd := document.New(key.Key("c18-doc"))
		var uerr error
		func() {
			defer func() {
				if r := recover(); r != nil {
					uerr = fmt.Errorf("panic: %v", r)
				}
			}()
			uerr = nd.Update(func(r *yjson.Object, p *document.Presence) error {
				r.SetYSON(src)
				return nil
			})
		}()
		if uerr != nil {
			return fmt.Sprintf("SetYSON: %v\n  y: %s", uerr, s)
		}
		y3, err := yson.FromCRDT(nd.RootObject())
		if err != nil {
			return "FromCRDT(new): " + err.Error()
		}
		s3, err := y3.(yson.Object).Marshal()
		if err != nil {
			return "Marshal(new): " + err.Error()
		}
		if s3 != s {
			return fmt.Sprintf("FromCRDT(SetYSON(y)) != y\n  y:   %s\n  new: %s", s, s3)
		}
		if !ysonSame(obj, y3) {
			return fmt.Sprintf("FromCRDT(SetYSON(y)) differs from y in value (the texts agree)\n  text: %s", truncateStr(s, 300))
		}
		if a, b := nd.Root().Marshal(), nd.Marshal(); a != b {
			return fmt.Sprintf("Root() != Marshal() on the rebuilt document\n  %s\n  %s", a, b)
		}
	}
	return ""
}

// ysonClass names the input feature the text parser is known to mishandle
// (identification of known findings only): a string value containing a
// parenthesis (the parser rewrites typed literals by global string replacement,
// also inside string literals) or an integer beyond 2^53 (numbers go through
// float64).
func ysonClass(v any) string {
	paren, big := false, false
	var walk func(v any)
	walk = func(v any) {
		switch t := v.(type) {
		case string:
			if strings.ContainsAny(t, "()") {
				paren = true
			}
		case int64:
			if t > 1<<53 || t < -(1<<53) {
				big = true
			}
		case yson.Object:
			for k, x := range t {
				walk(k)
				walk(x)
			}
		case yson.Array:
			for _, x := range t {
				walk(x)
			}
		case yson.Counter:
			walk(t.Value)
		case yson.Text:
			for _, n := range t.Nodes {
				walk(n.Value)
				for k, x := range n.Attributes {
					walk(k)
					walk(x)
				}
			}
		case yson.Tree:
			var tn func(n yson.TreeNode)
			tn = func(n yson.TreeNode) {
				walk(n.Value)
				for k, x := range n.Attributes {
					walk(k)
					walk(x)
				}
				for _, c := range n.Children {
					tn(c)
				}
			}
			tn(t.Root)
		}
	}
	walk(v)
	switch {
	case paren:
		return "string-containing-parenthesis"
	case big:
		return "integer-beyond-2^53"
	}
	return ""
}

// ---------------------------------------------------------------- grammar

var c18Tenth2 = 0.2 // a variable: 0.1 + c18Tenth2 is computed at run time (0.30000000000000004)

// ysonSame compares two YSON values exactly (floats bit by bit, byte slices,
// times, nested containers): comparing the texts they marshal to is blind to a
// lossy Marshal, which loses the same digits on both sides.
func ysonSame(a, b any) bool {
	switch x := a.(type) {
	case float64:
		y, ok := b.(float64)
		return ok && math.Float64bits(x) == math.Float64bits(y)
	case yson.Object:
		y, ok := b.(yson.Object)
		if !ok || len(x) != len(y) {
			return false
		}
		for k, v := range x {
			w, ok := y[k]
			if !ok || !ysonSame(v, w) {
				return false
			}
		}
		return true
	case yson.Array:
		y, ok := b.(yson.Array)
		if !ok || len(x) != len(y) {
			return false
		}
		for i := range x {
			if !ysonSame(x[i], y[i]) {
				return false
			}
		}
		return true
	case yson.Counter:
		y, ok := b.(yson.Counter)
		return ok && x.Type == y.Type && ysonSame(x.Value, y.Value) && bytes.Equal(x.Registers, y.Registers)
	case yson.Text:
		y, ok := b.(yson.Text)
		if !ok || len(x.Nodes) != len(y.Nodes) {
			return false
		}
		for i := range x.Nodes {
			if x.Nodes[i].Value != y.Nodes[i].Value || !sameAttrs(x.Nodes[i].Attributes, y.Nodes[i].Attributes) {
				return false
			}
		}
		return true
	case yson.Tree:
		y, ok := b.(yson.Tree)
		return ok && sameTreeNode(x.Root, y.Root)
	case []byte:
		y, ok := b.([]byte)
		return ok && bytes.Equal(x, y)
	case time.Time:
		y, ok := b.(time.Time)
		return ok && x.Equal(y)
	}
	return reflect.DeepEqual(a, b)
}

func sameAttrs(a, b map[string]string) bool {
	if len(a) != len(b) {
		return false
	}
	for k, v := range a {
		if w, ok := b[k]; !ok || w != v {
			return false
		}
	}
	return true
}

func sameTreeNode(a, b yson.TreeNode) bool {
	if a.Type != b.Type || a.Value != b.Value || !sameAttrs(a.Attributes, b.Attributes) || len(a.Children) != len(b.Children) {
		return false
	}
	for i := range a.Children {
		if !sameTreeNode(a.Children[i], b.Children[i]) {
			return false
		}
	}
	return true
}

func c18Leaves() []any {
	ts, _ := time.Parse(time.RFC3339Nano, "2026-01-02T03:04:05.123456789Z")
	return []any{
		nil, true, false, 1.5, float64(0), float64(-3),
		// doubles whose shortest decimal form needs 16-17 significant digits, and the extremes
		0.1 + c18Tenth2, math.Pi, float64(1 << 53), math.MaxFloat64, -math.MaxFloat64, math.SmallestNonzeroFloat64,
		"", "plain", "q\"uo\\te\nnl\ttab", "유니코드😀", "Int(5)", `{"type":"Counter"}`, "a) b", "(",
		int32(7), int32(-2147483648), int64(1) << 40, int64(-9), []byte{}, []byte{0, 1, 255}, ts,
	}
}

func c18Elements() []any {
	attrs := map[string]string{"b": "1", "k\"q": "v\\"}
	dedup := func() any {
		d := document.New(key.Key("c18-dedup"))
		_ = d.Update(func(r *yjson.Object, p *document.Presence) error {
			r.SetNewDedupCounter("d").Add("alice").Add("bob").Add("alice")
			return nil
		})
		y, _ := yson.FromCRDT(d.RootObject())
		return y.(yson.Object)["d"]
	}()
	return []any{
		yson.Counter{Type: crdt.IntegerCnt, Value: int32(5)},
		yson.Counter{Type: crdt.IntegerCnt, Value: int32(-2147483648)},
		yson.Counter{Type: crdt.LongCnt, Value: int64(1) << 50},
		dedup,
		yson.Text{},
		yson.Text{Nodes: []yson.TextNode{{Value: "ab"}}},
		yson.Text{Nodes: []yson.TextNode{{Value: "a", Attributes: attrs}, {Value: "b😀"}, {Value: "c", Attributes: map[string]string{"i": "2"}}}},
		yson.Text{Nodes: []yson.TextNode{{Value: "same", Attributes: map[string]string{"b": "1"}}, {Value: "attrs", Attributes: map[string]string{"b": "1"}}}},
		yson.Tree{Root: yson.TreeNode{Type: "doc", Children: []yson.TreeNode{}}},
		yson.Tree{Root: yson.TreeNode{Type: "doc", Children: []yson.TreeNode{
			{Type: "p", Attributes: attrs, Children: []yson.TreeNode{{Type: "text", Value: "ab"}, {Type: "text", Value: "cd"}}},
			{Type: "p", Children: []yson.TreeNode{}},
			{Type: "ul", Children: []yson.TreeNode{{Type: "li", Children: []yson.TreeNode{{Type: "text", Value: "x\"y"}}}}},
		}}},
	}
}

type c18case struct {
	Path string `json:"path"`
	Text string `json:"text"`
}

type c18gen struct {
	path string
	obj  yson.Object
}

func c18Gens(tier string) []c18gen {
	type gen = c18gen
	// (ii) generated values: every leaf/element alone, in an object, in an array,
	// nested two deep, and every ordered pair of values as siblings.
	var vals []any
	vals = append(vals, c18Leaves()...)
	vals = append(vals, c18Elements()...)
	var gens []gen
	for i, v := range vals {
		gens = append(gens, gen{fmt.Sprintf("root.k=v%d", i), yson.Object{"k": v}})
		gens = append(gens, gen{fmt.Sprintf("root.o.k=v%d", i), yson.Object{"o": yson.Object{"k": v, "z": int32(1)}}})
		gens = append(gens, gen{fmt.Sprintf("root.a[0]=v%d", i), yson.Object{"a": yson.Array{v}}})
		gens = append(gens, gen{fmt.Sprintf("root.a[o.k=v%d]", i), yson.Object{"a": yson.Array{yson.Object{"k": v}, yson.Array{v, v}}}})
		gens = append(gens, gen{fmt.Sprintf("root.o.a[1]=v%d", i), yson.Object{"o": yson.Object{"a": yson.Array{int32(0), v}}}})
	}
	for i, v := range vals {
		for j, w := range vals {
			gens = append(gens, gen{fmt.Sprintf("root{x=v%d,y=v%d}", i, j), yson.Object{"x": v, "y": w}})
			gens = append(gens, gen{fmt.Sprintf("root.a[v%d,v%d]", i, j), yson.Object{"a": yson.Array{v, w}}})
		}
	}
	if tier == "thorough" {
		for i, v := range vals {
			for j, w := range vals {
				for k, u := range vals {
					if (i+j+k)%3 != 0 {
						continue
					}
					gens = append(gens, gen{fmt.Sprintf("root{x=v%d,o{y=v%d,a[v%d]}}", i, j, k), yson.Object{"x": v, "o": yson.Object{"y": w, "a": yson.Array{u}}}})
				}
			}
		}
	}
	return gens
}

func c18Run(env *Env) *Result {
	res := NewResult()
	gens := c18Gens(env.Tier)
	for gi, g := range gens {
		if gi%env.NShards != env.Shard {
			continue
		}
		if env.Expired() {
			res.Incomplete = append(res.Incomplete, "c18/generated")
			break
		}
		txt, _ := g.obj.Marshal()
		raw, _ := json.Marshal(c18case{Path: g.path, Text: txt})
		env.Current(&Found{Property: "C18", Case: raw})
		var diff string
		if err, _ := hist.Guard(func() error { diff = ysonValueRoundTrip(g.obj); return nil }); err != nil {
			diff = "panic: " + firstLineOf(err.Error())
		}
		res.Evaluations++
		res.Nontrivial++
		res.Outcome("gen|" + txt)
		if len(res.Samples) < 2 && gi%301 == 0 {
			res.Sample(map[string]any{"generated": g.path, "yson": txt})
		}
		if diff != "" {
			core := "yson-roundtrip|generated|" + hist.NormErr(firstLineOf(diff)) + "|" + g.path
			if cls := ysonClass(g.obj); cls != "" && (strings.Contains(diff, "Unmarshal(Marshal(y))") || strings.Contains(diff, "parse(marshal(y)) != y")) {
				core = "yson-roundtrip|text-parse|" + cls
			}
			res.AddFound(Found{Property: "C18", Kind: "yson-roundtrip", Sig: "yson-roundtrip:generated", Detail: g.path + "\n" + diff, Case: raw, Core: core})
		}
	}
	if env.Shard == 0 && len(res.Incomplete) == 0 {
		res.Completed = append(res.Completed, fmt.Sprintf("c18/generated/%d-values", len(gens)))
	}
	// (i) reachable documents
	r2 := RunH(c18HSpec, env)
	r2.Evaluations, res.Evaluations = 0, res.Evaluations+r2.Evaluations
	r2.Nontrivial, res.Nontrivial = 0, res.Nontrivial+r2.Nontrivial
	res.Merge(r2)
	return res
}

var c18seen = map[string]bool{}

var reYsonInt = regexp.MustCompile(`(?:Long|Int)\((-?\d+)\)`)

// bigIntIn reports whether a YSON text contains an integer beyond 2^53.
func bigIntIn(s string) bool {
	for _, m := range reYsonInt.FindAllStringSubmatch(s, -1) {
		if v, err := strconv.ParseInt(m[1], 10, 64); err == nil && (v > 1<<53 || v < -(1<<53)) {
			return true
		}
	}
	return false
}

var c18HSpec = &HSpec{ID: "C18",
	Scenarios: func(tier string) []*hist.Scenario {
		var out []*hist.Scenario
		never := hist.Config{Threshold: hist.Big, Interval: hist.Big}
		fams := coreFamilies()
		if tier == "thorough" {
			fams = families()
		}
		for _, f := range fams {
			for _, al := range pairs(f.ops) {
				if tier == "quick" && len(al) == 2 {
					continue
				}
				k, y := 2, 2
				if tier == "thorough" {
					k, y = 2, 3
				}
				out = append(out, &hist.Scenario{Name: fmt.Sprintf("c18/reach/%s/%s/N2K%dY%d", f.name, strings.Join(al, "+"), k, y),
					N: 2, Init: f.init, Alphabet: al, K: k, Y: y, Cfg: never})
			}
		}
		// revisions through the real server: create a revision and restore it at
		// every position of a history (revisions.Create / revisions.Restore)
		for _, f := range fams {
			for _, op := range f.ops {
				n := 1
				if tier == "thorough" {
					n = 2
				}
				out = append(out, &hist.Scenario{Name: fmt.Sprintf("c18/revision/%s/%s/N%dK2Y2E2", f.name, op, n),
					N: n, Init: f.init, Alphabet: []string{op}, K: 2, Y: 2, Env: []string{"rev", "rst"}, E: 2, Cfg: never})
			}
		}
		// presence and mixed types
		out = append(out, &hist.Scenario{Name: "c18/reach/mixed/N2K2Y2", N: 2, Init: []string{"init.o", "init.a", "init.t", "init.c", "init.tr"},
			Alphabet: []string{"o.setarr1", "a.pushobj", "t.styF", "c.incmax", "tr.sty0"}, K: 2, Y: 2, Cfg: never})
		return out
	},
	Eval: func(r *hist.Runner, sc *hist.Scenario, h []hist.Event, res *Result) ([]hist.Violation, bool) {
		x := r.Run(sc, sc.Cfg, h)
		defer x.Close()
		if n := len(x.Steps); n > 0 && x.Steps[n-1].NoEffect {
			return nil, true
		}
		x.Quiesce()
		var viol []hist.Violation
		if len(sc.Env) > 0 {
			// revision scenarios: what rev / rst found, then everybody converges on
			// the restored content
			convergenceOracle(x)
			restored := false
			for _, e := range h {
				if e.K == "rst" {
					restored = true
				}
			}
			for _, v := range x.Viol {
				if v.Kind == "revision" && bigIntIn(v.Detail) {
					// the listed finding (numbers in YSON text go through float64), seen through a revision
					v.Core = "yson-roundtrip|text-parse|integer-beyond-2^53"
				}
				if v.Kind == "revision" || v.Kind == "panic" || (restored && (v.Kind == "sync-error" || v.Kind == "diverge" || v.Kind == "server-rebuild-error")) {
					viol = append(viol, v)
				}
			}
			if res != nil && restored {
				res.Count("revisions_restored", 1)
			}
			return viol, false
		}
		if x.Aborted {
			return nil, false
		}
		for _, rep := range x.AttachedReps() {
			if rep.SyncErrs > 0 {
				continue
			}
			m := rep.Doc.Marshal()
			if c18seen[m] {
				continue
			}
			c18seen[m] = true
			if res != nil {
				res.Count("distinct_reachable_documents", 1)
			}
			if diff := ysonRoundTrip(rep.Doc.RootObject()); diff != "" {
				v := hist.Violation{Kind: "yson-roundtrip", Sig: "yson-roundtrip:" + hist.NormErr(firstLineOf(diff)),
					Detail: fmt.Sprintf("client %d document %s\n%s", rep.Role, m, diff)}
				if y, err := yson.FromCRDT(rep.Doc.RootObject()); err == nil {
					if cls := ysonClass(y); cls != "" && (strings.Contains(diff, "Unmarshal(Marshal(y))") || strings.Contains(diff, "parse(marshal(y)) != y")) {
						v.Core = "yson-roundtrip|text-parse|" + cls
					}
				}
				viol = append(viol, v)
				break
			}
		}
		// the server-side user of the round trip: forced compaction must succeed
		if len(viol) == 0 && len(h) > 0 && len(h)%2 == 0 {
			st := x.StepPublic(hist.Event{K: "compactF", C: -1})
			if st.Err != "" {
				viol = append(viol, hist.Violation{Kind: "compaction-failed", Sig: "compaction-failed:" + hist.NormErr(st.Err), Detail: st.Err})
			} else if res != nil {
				res.Count("server_compactions", 1)
			}
		}
		return viol, false
	},
}

func init() {
	register(&Check{
		ID:    "C18",
		Level: "exploration",
		Rule: "(i) every distinct document reached by all normal-form 2-client histories (K<=2 edits, Y<=2 syncs, every edit kind of every data type; thorough: every pair) is exported with yson.FromCRDT, marshalled, parsed back (equal text), " +
			"imported with SetYSON into a new Document (value and parsed value) and re-exported (equal text, Root()==Marshal()); a forced server compaction (which runs the same rebuild-compare) must succeed; " +
			"(i') revisions through the real server: revisions.Create and revisions.Restore as environment events at EVERY position of all histories of <=2 edits and <=2 syncs per edit kind (1 client; thorough 2): the revision holds the YSON of the server's document at creation, right after a restore the server's document is exactly the revision's content, and all replicas converge afterwards; " +
			"(ii) generated YSON: 31 leaf/element values (null/bool/double/strings with escapes and unicode/Int/Long/BinData/Date, Int/Long/dedup counters, plain/styled/same-attribute texts, empty/attributed/nested trees) " +
			"in 5 container contexts each plus every ordered pair of values as object members and array items (thorough: a third of all triples, nested); non-trivial = all; distinct by construction",
		Assume:      []string{"revision restore uses the same export/import functions; the revision RPCs themselves are not driven"},
		QuickBudget: 120 * time.Second,
		Run:         c18Run,
		Reproduce: func(f *Found) (bool, error) {
			if f.Hist != nil {
				c18seen = map[string]bool{}
				return ReproduceH(c18HSpec)(f)
			}
			var c c18case
			if err := json.Unmarshal(f.Case, &c); err != nil {
				return false, err
			}
			for _, g := range c18Gens("thorough") {
				if g.path == c.Path {
					return ysonValueRoundTrip(g.obj) != "", nil
				}
			}
			return false, fmt.Errorf("unknown generated value %s", c.Path)
		},
		Minimise: func(f *Found) *Found {
			if f.Hist != nil {
				c18seen = map[string]bool{}
				rep := ReproduceH(c18HSpec)
				cur := *f
				changed := true
				for changed {
					changed = false
					for i := 0; i < len(cur.Hist); i++ {
						cand := cur
						cand.Hist = append(append([]hist.Event(nil), cur.Hist[:i]...), cur.Hist[i+1:]...)
						c18seen = map[string]bool{}
						if ok, err := rep(&cand); err == nil && ok {
							cur = cand
							changed = true
							i--
						}
					}
				}
				return &cur
			}
			return f
		},
	})
}
