package checks

import (
	"encoding/json"
	"fmt"
	"io"
	"os"
	"os/exec"
	"strings"
	"sync"
	"time"

	"connectrpc.com/connect"

	api "github.com/yorkie-team/yorkie/api/yorkie/v1"

	"github.com/yorkie-team/yorkie/api/converter"

	"github.com/yorkie-team/yorkie/pkg/document"
	yjson "github.com/yorkie-team/yorkie/pkg/document/json"
	"github.com/yorkie-team/yorkie/server/documents"

	"verifmc/hist"
	"verifmc/sched"
)

// sScenario is one closed concurrent harness: a few handler calls on one
// document, each on its own managed goroutine.
type sScenario struct {
	Name      string
	Clients   int // activated clients
	Attached  int // attached during setup
	Threshold int64
	Interval  int64
	// Threads builds the thread bodies; each returns an error string ("" ok).
	Threads func(sw *sWorld) []sThread
	// StillAttached lists roles expected to stay attached (for convergence).
	StillAttached func(sw *sWorld, results []string) []*sClient
	// NoLogOracle: the scenario resets the log (compaction), so the gap-free
	// log oracle over the whole window does not apply.
	NoLogOracle bool
	// ExpectErr: errors matching are legal outcomes of a thread (e.g. a push that loses against a remove).
	LegalErr func(thread string, err string) bool
	// Post is an extra oracle evaluated after the window (before the convergence round).
	Post func(sw *sWorld) string
}

type sThread struct {
	Name string
	Run  func() error
}

func sScenarios() []*sScenario {
	all := func(sw *sWorld, res []string) []*sClient { return sw.clients[:2] }
	noErr := func(string, string) bool { return false }
	return []*sScenario{
		{Name: "pushpull(c0)||pushpull(c1)", Clients: 2, Attached: 2, Threshold: hist.Big, Interval: hist.Big,
			Threads: func(sw *sWorld) []sThread {
				sw.edit(sw.clients[0])
				sw.edit(sw.clients[1])
				return []sThread{
					{"pushpull(c0)", func() error { return sw.pushpull(sw.clients[0]) }},
					{"pushpull(c1)", func() error { return sw.pushpull(sw.clients[1]) }},
				}
			}, StillAttached: all, LegalErr: noErr},
		{Name: "pushpull(c0)||pushpull(c1)+snapshot-store", Clients: 2, Attached: 2, Threshold: hist.Big, Interval: 1,
			Threads: func(sw *sWorld) []sThread {
				sw.edit(sw.clients[0])
				sw.edit(sw.clients[1])
				return []sThread{
					{"pushpull(c0)", func() error { return sw.pushpull(sw.clients[0]) }},
					{"pushpull(c1)", func() error { return sw.pushpull(sw.clients[1]) }},
				}
			}, StillAttached: all, LegalErr: noErr},
		{Name: "pushpull(c0)||pushpull(c0) duplicate in flight", Clients: 2, Attached: 2, Threshold: hist.Big, Interval: hist.Big,
			Threads: func(sw *sWorld) []sThread {
				c := sw.clients[0]
				sw.edit(c)
				pb, _ := converter.ToChangePack(c.doc.CreateChangePack())
				var cmu sync.Mutex
				dup := func() error {
					// the identical request, sent twice (client retry while the first is still in flight)
					res, err := sw.stub.PushPullChanges(sw.ctx, newPPReq(c, pb))
					if err != nil {
						return err
					}
					p, err := converter.FromChangePack(res.Msg.ChangePack)
					if err != nil {
						return err
					}
					cmu.Lock()
					c.cps = append(c.cps, p.Checkpoint.ServerSeq)
					cmu.Unlock()
					return nil
				}
				return []sThread{{"pushpull(c0)#1", dup}, {"pushpull(c0)#2", dup}}
			},
			StillAttached: func(sw *sWorld, res []string) []*sClient {
				// the client applies nothing in the window: refresh it by a normal sync
				c := sw.clients[0]
				c.cps, c.delivered = nil, nil
				return sw.clients[:2]
			}, LegalErr: noErr},
		{Name: "pushpull(c0)||detach(c1)", Clients: 2, Attached: 2, Threshold: hist.Big, Interval: hist.Big,
			Threads: func(sw *sWorld) []sThread {
				sw.edit(sw.clients[0])
				sw.edit(sw.clients[1])
				return []sThread{
					{"pushpull(c0)", func() error { return sw.pushpull(sw.clients[0]) }},
					{"detach(c1)", func() error { return sw.detach(sw.clients[1]) }},
				}
			}, StillAttached: func(sw *sWorld, res []string) []*sClient { return sw.clients[:1] }, LegalErr: noErr},
		{Name: "pushpull(c0)||attach(c2)+snapshot-pull", Clients: 3, Attached: 2, Threshold: 1, Interval: 1,
			Threads: func(sw *sWorld) []sThread {
				sw.edit(sw.clients[0])
				return []sThread{
					{"pushpull(c0)", func() error { return sw.pushpull(sw.clients[0]) }},
					{"attach(c2)", func() error { return sw.attach(sw.clients[2]) }},
				}
			}, StillAttached: func(sw *sWorld, res []string) []*sClient { return sw.clients[:3] }, LegalErr: noErr},
		{Name: "pushpull(c0)||pushpull(c1)||pushpull(c2)", Clients: 3, Attached: 3, Threshold: hist.Big, Interval: hist.Big,
			Threads: func(sw *sWorld) []sThread {
				var ts []sThread
				for i := 0; i < 3; i++ {
					c := sw.clients[i]
					sw.edit(c)
					ts = append(ts, sThread{fmt.Sprintf("pushpull(c%d)", i), func() error { return sw.pushpull(c) }})
				}
				return ts
			}, StillAttached: func(sw *sWorld, res []string) []*sClient { return sw.clients[:3] }, LegalErr: noErr},
		{Name: "pushpull(c0)||deactivate(c1)", Clients: 2, Attached: 2, Threshold: hist.Big, Interval: hist.Big,
			Threads: func(sw *sWorld) []sThread {
				sw.edit(sw.clients[0])
				return []sThread{
					{"pushpull(c0)", func() error { return sw.pushpull(sw.clients[0]) }},
					{"deactivate(c1)", func() error { return sw.deactivate(sw.clients[1]) }},
				}
			}, StillAttached: func(sw *sWorld, res []string) []*sClient { return sw.clients[:1] }, LegalErr: noErr},
		{Name: "pushpull(c0)||compact(force)", Clients: 2, Attached: 2, Threshold: hist.Big, Interval: hist.Big,
			Threads: func(sw *sWorld) []sThread {
				sw.edit(sw.clients[0])
				return []sThread{
					{"pushpull(c0)", func() error { return sw.pushpull(sw.clients[0]) }},
					{"compact(force)", func() error { return sw.compact(true) }},
				}
			},
			StillAttached: func(sw *sWorld, res []string) []*sClient { return nil }, NoLogOracle: true,
			LegalErr: func(th, e string) bool { return strings.Contains(e, "epoch") }},
		{Name: "pushpull(c0)||deactivate(c0)||compact(force)", Clients: 2, Attached: 2, Threshold: hist.Big, Interval: hist.Big,
			Threads: func(sw *sWorld) []sThread {
				sw.edit(sw.clients[0])
				return []sThread{
					{"pushpull(c0)", func() error { return sw.pushpull(sw.clients[0]) }},
					{"deactivate(c0)", func() error { return sw.deactivate(sw.clients[0]) }},
					{"compact(force)", func() error { return sw.compact(true) }},
				}
			},
			StillAttached: func(sw *sWorld, res []string) []*sClient { return nil }, NoLogOracle: true,
			LegalErr: func(th, e string) bool {
				return strings.Contains(e, "epoch") || strings.Contains(e, "not attached") || strings.Contains(e, "not activated") || strings.Contains(e, "not found")
			}},
		{Name: "attach(c0)||attach(c1) of a new document", Clients: 2, Attached: 0, Threshold: hist.Big, Interval: hist.Big,
			Threads: func(sw *sWorld) []sThread {
				// both requests find no document with this key: exactly one may create it
				_ = sw.clients[0].doc.Update(func(r *yjson.Object, p *document.Presence) error {
					r.SetNewCounter("c", 0)
					r.SetNewArray("a")
					return nil
				})
				return []sThread{
					{"attach(c0)", func() error { return sw.attach(sw.clients[0]) }},
					{"attach(c1)", func() error { return sw.attach(sw.clients[1]) }},
				}
			},
			StillAttached: all, LegalErr: noErr,
			Post: func(sw *sWorld) string {
				if sw.clients[0].docID != sw.clients[1].docID {
					return fmt.Sprintf("two documents were created for one key: %s and %s", sw.clients[0].docID, sw.clients[1].docID)
				}
				return ""
			}},
		{Name: "pushpull(c0,docA)||pushpull(c0,docB) same client, two documents", Clients: 2, Attached: 2, Threshold: hist.Big, Interval: hist.Big,
			Threads: func(sw *sWorld) []sThread {
				c := sw.clients[0]
				b, err := sw.second(c)
				if err != nil {
					return []sThread{{"setup", func() error { return err }}}
				}
				sw.edit(c)
				sw.editOther(b)
				return []sThread{
					{"pushpull(c0,docA)", func() error { return sw.pushpull(c) }},
					{"pushpull(c0,docB)", func() error { return sw.pushpullOther(b) }},
				}
			},
			StillAttached: all, LegalErr: noErr,
			Post: func(sw *sWorld) string { return sw.storedCheckpoints(sw.clients[0]) }},
		{Name: "detach(c1)||deactivate(c1) same client", Clients: 2, Attached: 2, Threshold: hist.Big, Interval: hist.Big,
			Threads: func(sw *sWorld) []sThread {
				sw.edit(sw.clients[1])
				return []sThread{
					{"detach(c1)", func() error { return sw.detach(sw.clients[1]) }},
					{"deactivate(c1)", func() error { return sw.deactivate(sw.clients[1]) }},
				}
			},
			StillAttached: func(sw *sWorld, res []string) []*sClient { return sw.clients[:1] },
			LegalErr: func(th, e string) bool {
				// whoever comes second finds the document detached / the client deactivated
				return strings.Contains(e, "not attached") || strings.Contains(e, "not activated") || strings.Contains(e, "not found") || strings.Contains(e, "already")
			},
			Post: func(sw *sWorld) string { return sw.goneFromDocument(sw.clients[1]) }},
		{Name: "attach;push(c1)||compact(normal) of an unattached document", Clients: 3, Attached: 2, Threshold: hist.Big, Interval: hist.Big,
			Threads: func(sw *sWorld) []sThread {
				// content, then everybody leaves: housekeeping may compact, unless an attach gets in first
				sw.edit(sw.clients[0])
				setupErr := sw.pushpull(sw.clients[0])
				for _, c := range sw.clients[:2] {
					if err := sw.detach(c); err != nil && setupErr == nil {
						setupErr = err
					}
				}
				sw.w.WaitBackground()
				c1 := sw.clients[1]
				close(c1.stop)
				sw.newDoc(c1)
				c1.delivered, c1.cps, c1.gotSnap = nil, nil, false
				sw.pushed, sw.pushErr = 0, ""
				sw.clock, sw.attachDone, sw.compactStart, sw.compacted = 0, 0, 0, false
				return []sThread{
					{"attach;push(c1)", func() error {
						if setupErr != nil {
							return setupErr
						}
						if err := sw.attach(c1); err != nil {
							return err
						}
						sw.clock++
						sw.attachDone = sw.clock
						sw.edit(c1)
						sw.pushed = sw.val
						if err := sw.pushpull(c1); err != nil {
							sw.pushErr = err.Error() // a refusal (stale generation) is legal; the oracle decides
						}
						return nil
					}},
					{"compact(normal)", func() error {
						sw.clock++
						sw.compactStart = sw.clock
						di, err := documents.FindDocInfoByKey(sw.ctx, sw.w.BE, sw.proj, sw.docKey)
						if err != nil {
							return err
						}
						sw.compacted, err = documents.CompactDocument(sw.ctx, sw.w.BE, sw.proj, di, false)
						return err
					}},
				}
			},
			StillAttached: func(sw *sWorld, res []string) []*sClient { return nil }, NoLogOracle: true,
			LegalErr: func(th, e string) bool { return false },
			Post: func(sw *sWorld) string {
				if sw.compacted && sw.attachDone > 0 && sw.attachDone < sw.compactStart {
					return "the document was compacted although a client had finished attaching before the compaction was requested"
				}
				// what a fresh client sees afterwards: the acknowledged edit, and only an acknowledged one
				c2 := sw.clients[2]
				if err := sw.attach(c2); err != nil {
					return "fresh attach after the window: " + err.Error()
				}
				has := strings.Contains(c2.doc.Marshal(), fmt.Sprintf("%d]", sw.pushed)) || strings.Contains(c2.doc.Marshal(), fmt.Sprintf("%d,", sw.pushed))
				switch {
				case sw.pushErr == "" && !has:
					return fmt.Sprintf("the server acknowledged c1's edit %d, a fresh client does not see it: %s", sw.pushed, c2.doc.Marshal())
				case sw.pushErr != "" && has:
					return fmt.Sprintf("c1's push was refused (%s) but its edit %d is in the document: %s", hist.NormErr(sw.pushErr), sw.pushed, c2.doc.Marshal())
				case sw.pushErr != "" && !strings.Contains(sw.pushErr, "epoch"):
					return "c1's push failed for another reason than a stale generation: " + hist.NormErr(sw.pushErr)
				}
				return ""
			}},
		{Name: "remove(c0)||pushpull(c1)", Clients: 2, Attached: 2, Threshold: hist.Big, Interval: hist.Big,
			Threads: func(sw *sWorld) []sThread {
				sw.edit(sw.clients[1])
				return []sThread{
					{"remove(c0)", func() error { return sw.remove(sw.clients[0]) }},
					{"pushpull(c1)", func() error { return sw.pushpull(sw.clients[1]) }},
				}
			}, StillAttached: func(sw *sWorld, res []string) []*sClient { return nil }, LegalErr: noErr},
	}
}

func newPPReq(c *sClient, pb *api.ChangePack) *connect.Request[api.PushPullChangesRequest] {
	return connect.NewRequest(&api.PushPullChangesRequest{ClientId: c.id, DocumentId: c.docID, ChangePack: pb})
}

type sCase struct {
	Scenario string `json:"scenario"`
	Choices  []int  `json:"choices"`
}

// sRunOne executes one schedule of the scenario and evaluates all oracles.
func sRunOne(sc *sScenario, prefix []int, keepTrace bool) (x *sched.Exec, msg string) {
	sw, err := newSWorld(sc.Clients, sc.Threshold, sc.Interval)
	if err != nil {
		return nil, "harness: " + err.Error()
	}
	defer sw.close()
	if err := sw.setup(sc.Attached); err != nil {
		return nil, "harness: setup: " + err.Error()
	}
	threads := sc.Threads(sw)
	results := make([]string, len(threads))
	x = sched.NewExec(prefix)
	x.KeepTrace = keepTrace
	for i, th := range threads {
		i, th := i, th
		x.Go(th.Name, func() {
			if err := th.Run(); err != nil {
				results[i] = err.Error()
			}
		})
	}
	done := make(chan struct{})
	go func() { x.Run(); close(done) }()
	select {
	case <-done:
	case <-time.After(120 * time.Second):
		sPoison()
		return x, "harness: execution did not finish within 120 s (a real lock is held across a scheduling point?)"
	}
	if x.Aborted != "" {
		sPoison()
		return x, "harness: " + x.Aborted
	}
	if x.Deadlock != "" {
		sPoison()
		return x, "deadlock: " + x.Deadlock
	}
	for _, t := range x.Threads() {
		if t.Err != nil {
			sPoison()
			return x, fmt.Sprintf("panic in %s: %v", t.Name, t.Err)
		}
	}
	for i, r := range results {
		if r != "" && !sc.LegalErr(threads[i].Name, r) {
			return x, fmt.Sprintf("%s failed: %s", threads[i].Name, hist.NormErr(r))
		}
	}
	if len(x.OrderViol) > 0 {
		return x, "lock order: " + x.OrderViol[0]
	}
	if sc.Post != nil {
		sw.w.WaitBackground()
		if m := sc.Post(sw); m != "" {
			return x, "state: " + m
		}
	}
	if !sc.NoLogOracle {
		if m := sw.logOracle(false); m != "" {
			return x, "log: " + m
		}
	}
	if m := sw.converge(sc.StillAttached(sw, results)); m != "" {
		return x, "converge: " + m
	}
	if !sc.NoLogOracle {
		if m := sw.logOracle(false); m != "" {
			return x, "log after the window: " + m
		}
	}
	return x, ""
}

// sExplore is the DFS driver specialised for scenarios (the generic
// sched.Explore builds the Exec itself; here the scenario needs its own setup
// per execution).
func sExplore(env *Env, sc *sScenario, bound int, res *Result, prop string) {
	execs := 0
	incomplete := false
	var rec func(prefix []int)
	rec = func(prefix []int) {
		if env.Expired() {
			incomplete = true
			return
		}
		raw, _ := json.Marshal(sCase{Scenario: sc.Name, Choices: prefix})
		if execs%8 == 0 {
			env.Current(&Found{Property: prop, Case: raw})
		}
		x, msg := sRunOne(sc, prefix, false)
		execs++
		res.Evaluations++
		if x == nil {
			res.HarnessErr = append(res.HarnessErr, msg)
			incomplete = true
			return
		}
		pre := 0
		for _, p := range x.Points {
			if p.Chosen != 0 && p.Running >= 0 && len(p.Enabled) > 0 && p.Enabled[0] == p.Running {
				pre++
			}
		}
		if pre > 0 {
			res.Nontrivial++
		}
		res.Outcome(sc.Name + "|" + outcomeKey(msg))
		if len(res.Samples) < 3 && pre == 2 && execs%53 == 0 {
			res.Sample(map[string]any{"scenario": sc.Name, "schedule_choices": x.Choices(), "preemptions": pre, "points": len(x.Points)})
		}
		if strings.HasPrefix(msg, "harness") {
			res.HarnessErr = append(res.HarnessErr, sc.Name+": "+msg)
			return
		}
		if msg != "" {
			raw, _ := json.Marshal(sCase{Scenario: sc.Name, Choices: x.Choices()})
			res.AddFound(Found{Property: prop, Kind: kindOf(msg), Sig: kindOf(msg) + ":" + sc.Name, Detail: sc.Name + "\n" + msg, Case: raw,
				Core: fmt.Sprintf("%s|%s|%s", kindOf(msg), sc.Name, hist.NormErr(firstLineOf(afterColon(msg))))})
			if strings.HasPrefix(msg, "deadlock") || strings.HasPrefix(msg, "panic") {
				return
			}
		}
		cost := make([]int, len(x.Points)+1)
		for i, p := range x.Points {
			c := 0
			if p.Chosen != 0 && p.Running >= 0 && len(p.Enabled) > 0 && p.Enabled[0] == p.Running {
				c = 1
			}
			cost[i+1] = cost[i] + c
		}
		choices := x.Choices()
		for i := len(prefix); i < len(x.Points); i++ {
			p := x.Points[i]
			for alt := 1; alt < len(p.Enabled); alt++ {
				c := cost[i]
				if p.Running >= 0 && p.Enabled[0] == p.Running {
					c++
				}
				if c > bound {
					continue
				}
				rec(append(append([]int{}, choices[:i]...), alt))
				if incomplete {
					return
				}
			}
		}
	}
	rec(nil)
	if incomplete {
		res.Incomplete = append(res.Incomplete, fmt.Sprintf("s/%s/bound%d", sc.Name, bound))
	} else {
		res.Completed = append(res.Completed, fmt.Sprintf("s/%s/bound%d/%d-schedules", sc.Name, bound, execs))
	}
	res.Count("schedules:"+sc.Name, execs)
}

func outcomeKey(msg string) string {
	if msg == "" {
		return "ok"
	}
	return kindOf(msg)
}

func kindOf(msg string) string {
	if i := strings.Index(msg, ":"); i > 0 {
		return strings.ReplaceAll(msg[:i], " ", "-")
	}
	return "violation"
}

func sCheckRun(prop string, filter func(name string) bool) func(env *Env) *Result {
	return func(env *Env) *Result {
		res := NewResult()
		bound := 2
		if env.Tier == "thorough" {
			bound = 3
		}
		n := 0
		for _, sc := range sScenarios() {
			if !filter(sc.Name) {
				continue
			}
			if f := os.Getenv("VERIF_FILTER"); f != "" && !strings.Contains(sc.Name, f) {
				continue // development aid
			}
			n++
			// scenarios are sharded over workers (with more workers than scenarios some stay idle)
			if (n-1)%env.NShards != env.Shard {
				continue
			}
			if env.Expired() {
				res.Incomplete = append(res.Incomplete, "s/"+sc.Name)
				continue
			}
			b := bound
			if sc.Clients >= 3 && len(sc.Name) > 0 && strings.Count(sc.Name, "||") >= 2 {
				b = bound - 1 // three threads: one preemption less (the schedule count grows with threads^preemptions)
			}
			sExplore(env, sc, b, res, prop)
		}
		return res
	}
}

// racePostRun launches the free-running pass in the -race binary.
func racePostRun(res *Result, tier string) {
	bin := VerifDir() + "/.build/vcheck-race"
	if _, err := os.Stat(bin); err != nil {
		res.Notes = append(res.Notes, "race pass skipped: "+bin+" not built")
		return
	}
	secs := "25"
	if tier == "thorough" {
		secs = "180"
	}
	cmd := exec.Command(bin, "racepass", secs)
	cmd.Env = append(os.Environ(), "GORACE=halt_on_error=0 exitcode=0", "GOMAXPROCS=16")
	out, err := cmd.CombinedOutput()
	text := string(out)
	if i := strings.Index(text, "fatal error: concurrent map"); i >= 0 {
		// the runtime's own detector: unsynchronised map access kills the process
		site := "runtime-detected"
		for _, l := range strings.Split(text[i:], "\n") {
			if strings.Contains(l, "github.com/yorkie-team/yorkie/") && !strings.HasPrefix(strings.TrimSpace(l), "/") {
				l = strings.TrimSpace(l)
				if j := strings.LastIndex(l, "/"); j >= 0 {
					l = l[j+1:]
				}
				if j := strings.Index(l, "("); j > 0 {
					l = l[:j]
				}
				site = l
				break
			}
		}
		raw, _ := json.Marshal(map[string]string{"race": site})
		res.AddFound(Found{Property: "C16", Kind: "data-race", Sig: "data-race:" + site, Detail: truncateStr(text[i:], 3500), Case: raw, Core: "data-race|concurrent-map|" + site})
	} else if err != nil && !strings.Contains(text, "racepass iterations=") && !strings.Contains(text, "WARNING: DATA RACE") {
		res.HarnessErr = append(res.HarnessErr, fmt.Sprintf("race pass: %v\n%s", err, truncateStr(text, 2000)))
		return
	}
	var it int
	if i := strings.LastIndex(text, "racepass iterations="); i >= 0 {
		fmt.Sscanf(text[i:], "racepass iterations=%d", &it)
	}
	res.Count("race_pass_iterations", it)
	if strings.Contains(text, "RACEPASS-HANG") {
		res.AddFound(Found{Property: "C16", Kind: "hang", Sig: "hang:free-running", Detail: truncateStr(text, 3000), Core: "hang|free-running pass"})
	}
	reports := strings.Split(text, "WARNING: DATA RACE")
	res.Count("race_reports", len(reports)-1)
	seen := map[string]bool{}
	for _, rep := range reports[1:] {
		if j := strings.Index(rep, "=================="); j > 0 {
			rep = rep[:j]
		}
		site := raceSite(rep)
		if site == "unknown" {
			// neither access is in the code under test: a race inside the harness
			// bodies themselves is not a finding about the pipeline
			res.Count("race_reports_harness_only", 1)
			continue
		}
		if seen[site] {
			continue
		}
		seen[site] = true
		raw, _ := json.Marshal(map[string]string{"race": site})
		res.AddFound(Found{Property: "C16", Kind: "data-race", Sig: "data-race:" + site, Detail: "WARNING: DATA RACE" + truncateStr(rep, 3500), Case: raw, Core: "data-race|" + site})
	}
}

// raceSite names a race by the two innermost frames of the code under test.
func raceSite(rep string) string {
	var sites []string
	lines := strings.Split(rep, "\n")
	for i, l := range lines {
		if (strings.HasPrefix(l, "Write at") || strings.HasPrefix(l, "Read at") || strings.HasPrefix(l, "Previous write at") || strings.HasPrefix(l, "Previous read at")) && i+1 < len(lines) {
			for _, f := range lines[i+1:] {
				f = strings.TrimSpace(f)
				if f == "" {
					break
				}
				if strings.Contains(f, "yorkie-team/yorkie") && !strings.HasPrefix(f, "/") {
					if j := strings.LastIndex(f, "/"); j >= 0 {
						f = f[j+1:]
					}
					if j := strings.LastIndex(f, "("); j > 0 {
						f = f[:j]
					}
					sites = append(sites, f)
					break
				}
			}
		}
	}
	if len(sites) == 0 {
		return "unknown"
	}
	return strings.Join(sites, " vs ")
}

// STrace, when set, receives the schedule of a replayed case.
var STrace io.Writer

func sReproduce(f *Found) (bool, error) {
	var c sCase
	if err := json.Unmarshal(f.Case, &c); err != nil {
		return false, err
	}
	for _, sc := range sScenarios() {
		if sc.Name == c.Scenario {
			x, msg := sRunOne(sc, c.Choices, true)
			if strings.HasPrefix(msg, "harness") {
				return false, fmt.Errorf("%s", msg)
			}
			if STrace != nil && x != nil {
				fmt.Fprintf(STrace, "schedule: %s\nresult: %s\n", strings.Join(x.Trace, " "), msg)
			}
			return msg != "" && kindOf(msg) == f.Kind, nil
		}
	}
	return false, fmt.Errorf("unknown scenario %s", c.Scenario)
}

func init() {
	register(&Check{
		ID:    "C16",
		Level: "exploration",
		Rule: "Engine S: each scenario is a closed harness of 2-3 real handler calls (PushPull, duplicate PushPull in flight, Attach with snapshot pull, Detach, Remove, Deactivate (cluster DetachDocument), forced Compact, background snapshot store) on one document, " +
			"each on its own goroutine under a cooperative scheduler that owns every named-lock operation (trace hook; Go RWMutex semantics incl. writer preference modelled), every storage call (Backend.DB decorator) and every background task (spawn hook); " +
			"ALL schedules with at most 2 preemptions (thorough 3; one less for the three-thread harnesses) are executed (depth-first over choice sequences, deterministic replay of the prefix, divergence is a harness error); " +
			"oracle on every schedule: no deadlock (no enabled thread while one is unfinished), every call returns, no panic, lock acquisition order doc -> pull -> attachment -> push, C04's log oracle, and C01's convergence after the window; " +
			"evaluations = schedules, non-trivial = schedules with at least one preemption, distinct outcomes = (scenario, result kind); " +
			"(prim) the primitives under the pipeline, pkg/locker and pkg/cmap, in a second binary built with a `go build -overlay` that swaps \"sync\" and \"sync/atomic\" inside those two packages for scheduler-aware shims generated from the current files: EVERY mutex / RW-mutex / atomic operation inside them is a scheduling point and blocking follows the scheduler's model of Go's mutexes; " +
			"17 (thorough 22) closed harnesses of 2-4 threads x 1-3 calls on colliding names / keys (same shard), ALL schedules with at most 3 / 2 / 2 preemptions for 2 / 3 / 4 threads (thorough 5 / 3 / 2); " +
			"oracles: locker - mutual exclusion per name, Unlock/RUnlock never ErrNoSuchLock, no deadlock, no lock entry left behind (unless a TryLock failed: upstream keeps the waiter count then), the lock still usable afterwards; " +
			"cmap - the call/return history of Set/Upsert/Get/Has/Delete/Delete(cond) is linearizable w.r.t. a plain map (porcupine, decided per schedule), Len/Keys/Values (shard-by-shard, not linearizable by design) report every key present during the whole call and none absent during the whole call; " +
			"the same thread bodies also run free under the race detector (primitive race pass)",
		Assume: []string{"memdb backend: one storage call is atomic", "preemption points are named-lock operations, storage calls and task start/end; code between two points runs atomically (data-race freedom of that code is the job of the separate free-running -race pass, not of this exploration)",
			"clients x documents beyond 3 x 1 are not explored"},
		QuickBudget: 300 * time.Second,
		Run: func(env *Env) *Result {
			// the primitives under the pipeline first (bounded: at most 40% of the
			// budget), at the granularity of their own mutex / atomic operations
			pres := NewResult()
			penv := *env
			if d := time.Until(env.Deadline) * 2 / 5; d > 0 {
				penv.Deadline = time.Now().Add(d)
			}
			primRun(&penv, pres, "C16")
			res := sCheckRun("C16", func(string) bool { return true })(env)
			res.Merge(pres)
			return res
		},
		Reproduce: func(f *Found) (bool, error) {
			if f.Kind == "data-race" || strings.Contains(string(f.Case), "free_running") {
				return true, nil // a race report is its own artefact; the pass is a detector
			}
			if strings.HasSuffix(f.Sig, ":prim") {
				return primReproduce(f)
			}
			return sReproduce(f)
		},
		PostRun: func(res *Result, tier string) {
			racePostRun(res, tier)
			primRacePass(res, tier)
		},
	})
}
