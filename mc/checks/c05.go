package checks

import (
	"context"
	"fmt"
	"math"
	"strings"
	"time"

	"verifmc/hist"
)

func c05Scenarios(tier string) []*hist.Scenario {
	var out []*hist.Scenario
	never := hist.Config{Threshold: hist.Big, Interval: hist.Big}
	type fam struct {
		name string
		init []string
		ops  []string
	}
	fams := []fam{
		{"cnt", []string{"init.c"}, []string{"c.inc1"}},
		{"arr", []string{"init.a"}, []string{"a.push"}},
		{"arr", []string{"init.a"}, []string{"a.delL"}},
		{"txt", []string{"init.t"}, []string{"t.insM"}},
		{"obj", []string{"init.o"}, []string{"o.set1"}},
		{"tree", []string{"init.tr"}, []string{"tr.insT1"}},
	}
	if tier == "thorough" {
		fams = append(fams, fam{"cnt", []string{"init.c"}, []string{"c.inc1", "cl.inc1"}},
			fam{"arr", []string{"init.a"}, []string{"a.push", "a.mv0L"}},
			fam{"txt", []string{"init.t"}, []string{"t.insM", "t.delF"}})
	}
	for _, f := range fams {
		k, y := 2, 2
		if tier == "thorough" {
			k, y = 2, 3
		}
		out = append(out, &hist.Scenario{
			Name: fmt.Sprintf("c05/%s/%s/N2K%dY%d", f.name, strings.Join(f.ops, "+"), k, y),
			N:    2, Init: f.init, Alphabet: f.ops, K: k, Y: y, Cfg: never,
		})
		// with snapshots in play (threshold 1: pulls are snapshots, interval 1: background store)
		out = append(out, &hist.Scenario{
			Name: fmt.Sprintf("c05/%s/%s/snap1-1/N2K%dY%d", f.name, strings.Join(f.ops, "+"), k, y),
			N:    2, Init: f.init, Alphabet: f.ops, K: k, Y: y, Cfg: hist.Config{Threshold: 1, Interval: 1},
		})
	}
	return out
}

// c05Run executes one (possibly faulted) history and evaluates the
// exactly-once oracle. expectCounter < 0 disables the counter clause.
func c05Run(r *hist.Runner, sc *hist.Scenario, h []hist.Event) (x *hist.Exec, viol []hist.Violation) {
	x = r.Run(sc, sc.Cfg, h)
	if x.Aborted {
		return x, x.Viol
	}
	// Withdraw the expected error of faulted events; require the immediate
	// retry (same client, next event) to succeed.
	var kept []hist.Violation
	for i, st := range x.Steps {
		end := len(x.Viol)
		if i+1 < len(x.Steps) {
			end = x.Steps[i+1].ViolFrom
		}
		vs := x.Viol[st.ViolFrom:end]
		if st.Faulted {
			if st.Err != "" && x.FaultFiredAt(i) {
				x.Reps[st.Ev.C].SyncErrs = 0
				continue // expected failure of the faulted request
			}
		}
		if i > 0 && x.Steps[i-1].Faulted && st.Ev.K == "s" && st.Ev.C == x.Steps[i-1].Ev.C && st.Err != "" {
			for _, v := range vs {
				v.Kind = "retry-failed"
				v.Sig = "retry-failed:" + v.Sig
				kept = append(kept, v)
			}
			continue
		}
		kept = append(kept, vs...)
	}
	x.Viol = kept
	if len(x.Viol) > 0 {
		return x, x.Viol
	}
	x.Quiesce()
	convergenceOracle(x)
	if len(x.Viol) > 0 || !x.Quiesced {
		return x, x.Viol
	}
	// log: every locally created change exactly once
	di, err := x.DocInfo()
	if err != nil {
		return x, x.Viol
	}
	infos, err := x.R.W.BE.DB.FindChangeInfosBetweenServerSeqs(context.Background(), di.RefKey(), 1, math.MaxInt64)
	if err != nil {
		return x, x.Viol
	}
	seen := map[string]int64{}
	for _, ci := range infos {
		k := fmt.Sprintf("c%d/%d", x.RoleOf(ci.ActorID.String()), ci.ClientSeq)
		if prev, dup := seen[k]; dup {
			x.Viol = append(x.Viol, hist.Violation{Kind: "change-duplicated", Sig: "change-duplicated",
				Detail: fmt.Sprintf("change %s stored twice: serverSeq %d and %d", k, prev, ci.ServerSeq)})
			return x, x.Viol
		}
		seen[k] = ci.ServerSeq
	}
	for _, cr := range x.Created {
		if _, ok := seen[fmt.Sprintf("c%d/%d", cr.Role, cr.ClientSeq)]; !ok {
			x.Viol = append(x.Viol, hist.Violation{Kind: "change-lost", Sig: "change-lost",
				Detail: fmt.Sprintf("change c%d/%d was created but is not in the log", cr.Role, cr.ClientSeq)})
			return x, x.Viol
		}
	}
	// every replica equals the one-by-one replay of the final log
	ref, err := replayLog(x, di.ServerSeq)
	if err == nil {
		for _, rep := range x.AttachedReps() {
			if m := rep.Doc.Marshal(); m != ref {
				x.Viol = append(x.Viol, hist.Violation{Kind: "diverge", Sig: "diverge:replica-vs-log-replay",
					Detail: fmt.Sprintf("client %d: %s\nlog replay: %s", rep.Role, m, ref)})
				break
			}
		}
	}
	return x, x.Viol
}

func counterValues(x *hist.Exec) string {
	if len(x.Reps) == 0 {
		return ""
	}
	return x.Reps[0].Doc.Marshal()
}

func c05Eval(r *hist.Runner, sc *hist.Scenario, h []hist.Event, res *Result) ([]hist.Violation, bool) {
	// Reproduction mode: the history already carries its fault marker.
	for _, e := range h {
		if e.K == "fault" {
			x, viol := c05Run(r, sc, h)
			x.Close()
			return viol, false
		}
	}
	// 1. fault-free recording pass: which storage calls does each request make?
	var rec []hist.Event
	for _, e := range h {
		if e.K == "s" {
			rec = append(rec, hist.Event{K: "fault", Op: "0/n"})
		}
		rec = append(rec, e)
	}
	x0 := r.Run(sc, sc.Cfg, rec)
	if n := len(x0.Steps); n > 0 && x0.Steps[n-1].NoEffect {
		x0.Close()
		return nil, true
	}
	calls := map[int][]string{} // index in h -> storage calls
	hi := 0
	for i, st := range x0.Steps {
		if st.Ev.K == "fault" {
			continue
		}
		if st.Ev.K == "s" && st.Faulted {
			calls[hi] = x0.CallsAt(i)
		}
		hi++
	}
	x0.Quiesce()
	convergenceOracle(x0)
	base := x0.Viol
	counterRef := counterValues(x0)
	isCounter := strings.HasPrefix(sc.Init[0], "init.c")
	x0.Close()
	if len(base) > 0 {
		return base, false // fault-free violation: belongs to C01 but must not be hidden
	}
	// Only the last sync of the history is faulted here: faults on earlier
	// syncs are enumerated when the shorter prefix ending in that sync is visited
	// (every prefix is an enumerated history) - except that the suffix after the
	// fault matters too, so all syncs are faulted, one at a time.
	var all []hist.Violation
	for idx, e := range h {
		if e.K != "s" {
			continue
		}
		cs := calls[idx]
		type plan struct {
			k    int
			mode string
		}
		var plans []plan
		for k := range cs {
			plans = append(plans, plan{k, "b"}, plan{k, "a"})
		}
		plans = append(plans, plan{0, "r"})
		for _, p := range plans {
			for _, retry := range []bool{true, false} {
				var fh []hist.Event
				fh = append(fh, h[:idx]...)
				fh = append(fh, hist.Event{K: "fault", Op: fmt.Sprintf("%d/%s", p.k, p.mode)}, e)
				if retry {
					fh = append(fh, hist.Event{K: "s", C: e.C})
				}
				fh = append(fh, h[idx+1:]...)
				x, viol := c05Run(r, sc, fh)
				if len(viol) == 0 && isCounter && x.Quiesced {
					if got := counterValues(x); got != counterRef {
						viol = append(viol, hist.Violation{Kind: "counter-differs", Sig: "counter-differs",
							Detail: fmt.Sprintf("with fault: %s\nfault-free: %s", got, counterRef)})
					}
				}
				if res != nil {
					res.Evaluations++
					if x.AnyFaultFired() {
						res.Nontrivial++
						method := "response-lost"
						if p.mode != "r" && p.k < len(cs) {
							method = cs[p.k] + "/" + p.mode
						}
						res.Outcome(method)
					}
					if len(res.Samples) < 4 && p.mode == "a" && retry {
						res.Sample(map[string]any{"scenario": sc.Name, "faulted_history": hist.HistString(fh), "storage_calls_of_faulted_request": cs})
					}
				}
				dup := len(viol) > 0 && c05LogHasDuplicate(x)
				x.Close()
				for _, v := range viol {
					v.Detail = fmt.Sprintf("fault %d/%s (%s) retry=%v in %s\n%s", p.k, p.mode, callName(cs, p.k, p.mode), retry, hist.HistString(fh), v.Detail)
					// the violating case is the faulted history itself
					cls := callClass(cs, p.k, p.mode)
					core := v.Kind + "|" + v.Sig + "@" + cls
					if dup && strings.HasPrefix(cls, "window:") {
						// One defect, many symptoms (duplicate rows, a counter counted twice,
						// divergence, "child not found" / "node should be found" when the
						// second copy of a delete is applied): identified by the fault window
						// plus the fact that the log holds a change twice.
						core = "retry-stores-changes-twice@" + cls
					}
					all = append(all, hist.Violation{Kind: v.Kind, Sig: v.Sig + "@" + cls, Detail: v.Detail + "\nFH=" + encodeHist(fh), Core: core})
				}
			}
		}
	}
	if res != nil {
		res.Evaluations-- // RunH adds one per history; evaluations count faulted executions
		if res.Nontrivial > 0 && Concurrent(h) {
			res.Nontrivial--
		}
	}
	return all, false
}

// c05LogHasDuplicate reports the fact the known finding is identified by: some
// (actor, clientSeq) is stored under two serverSeqs.
func c05LogHasDuplicate(x *hist.Exec) bool {
	di, err := x.DocInfo()
	if err != nil {
		return false
	}
	infos, err := x.R.W.BE.DB.FindChangeInfosBetweenServerSeqs(context.Background(), di.RefKey(), 1, math.MaxInt64)
	if err != nil {
		return false
	}
	seen := map[string]bool{}
	for _, ci := range infos {
		k := fmt.Sprintf("%s/%d", ci.ActorID.String(), ci.ClientSeq)
		if seen[k] {
			return true
		}
		seen[k] = true
	}
	return false
}

// callClass names the fault point. All points between "the pushed changes are
// stored" and "the client's checkpoint is persisted" form one window: the
// server has the changes but does not remember that this client pushed them.
func callClass(cs []string, k int, mode string) string {
	if mode == "r" {
		return "response-lost"
	}
	ic, iu := -1, -1
	for i, m := range cs {
		if m == "CreateChangeInfos" && ic < 0 {
			ic = i
		}
		if m == "UpdateClientInfoAfterPushPull" && iu < 0 {
			iu = i
		}
	}
	if ic >= 0 && iu >= 0 {
		if (k == ic && mode == "a") || (k > ic && k < iu) || (k == iu && mode == "b") {
			return "window:changes-stored-but-checkpoint-not-persisted"
		}
	}
	return callName(cs, k, mode)
}

func callName(cs []string, k int, mode string) string {
	if mode == "r" {
		return "response-lost"
	}
	if k < len(cs) {
		return cs[k] + "/" + mode
	}
	return "?"
}

func encodeHist(h []hist.Event) string {
	var parts []string
	for _, e := range h {
		parts = append(parts, fmt.Sprintf("%s,%d,%s", e.K, e.C, e.Op))
	}
	return strings.Join(parts, ";")
}

func decodeHist(s string) []hist.Event {
	var out []hist.Event
	for _, p := range strings.Split(s, ";") {
		f := strings.SplitN(p, ",", 3)
		if len(f) != 3 {
			continue
		}
		var c int
		fmt.Sscanf(f[1], "%d", &c)
		out = append(out, hist.Event{K: f[0], C: c, Op: f[2]})
	}
	return out
}

func init() {
	spec := &HSpec{ID: "C05", Scenarios: c05Scenarios, Eval: c05Eval}
	c := &Check{
		Level: "fault_enumeration",
		Rule: "for every normal-form history of the family (counter/array/text/object/tree, K<=2 edits, Y<=2 syncs, with and without snapshots) and EVERY sync request in it: " +
			"a recording pass lists the storage calls the request makes (DB decorator on Backend.DB, including the background snapshot store); then one execution per " +
			"(storage call index, error before the call | error after it took effect) and one with the response lost at the transport, each with and without an immediate identical retry; " +
			"oracle: the immediate retry succeeds, replicas converge and equal the server rebuild, every created change is in the log exactly once, every replica equals a one-by-one replay of the final log, " +
			"counters equal the fault-free twin; evaluations = faulted executions, distinct_nontrivial counted as executions in which the fault actually fired (distinct by construction: history x request x call x mode x retry)",
		Assume:      []string{"memdb backend: a storage call is atomic (no torn writes inside one call)", "single fault per execution"},
		QuickBudget: 300 * time.Second,
	}
	registerH(spec, c)
	// Violations carry the faulted history in the detail (FH=...): reproduce that.
	base := c.Reproduce
	c.Reproduce = func(f *Found) (bool, error) {
		g := *f
		if j := strings.Index(g.Sig, "@"); j >= 0 {
			g.Sig = g.Sig[:j] // the raw oracle signature; the fault class is appended by c05Eval
		}
		if i := strings.LastIndex(f.Detail, "\nFH="); i >= 0 && !hasFault(f.Hist) {
			g.Hist = decodeHist(f.Detail[i+4:])
		}
		return base(&g)
	}
	c.Minimise = func(f *Found) *Found {
		g := *f
		if i := strings.LastIndex(f.Detail, "\nFH="); i >= 0 && !hasFault(f.Hist) {
			g.Hist = decodeHist(f.Detail[i+4:])
		}
		return MinimiseH(spec)(&g)
	}
}

func hasFault(h []hist.Event) bool {
	for _, e := range h {
		if e.K == "fault" {
			return true
		}
	}
	return false
}
