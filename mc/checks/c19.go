package checks

import (
	"fmt"
	"strings"
	"time"

	"github.com/yorkie-team/yorkie/pkg/document"
	yjson "github.com/yorkie-team/yorkie/pkg/document/json"

	"verifmc/hist"
)

// C19: the five upstream tree-concurrency matrices (test/complex/
// tree_concurrency_test.go, not part of the pinned suite and t.Skip'ing
// divergent pairs upstream), re-encoded as data and enumerated completely.

type c19range struct {
	r    [2][3]int // per user: from, mid, to
	desc string
}

type c19op struct {
	sel   string // front, middle, back, all, q1, q3
	kind  string // edit, merge, split, style, rmstyle
	node  *yjson.TreeNode
	level int
	key   string
	val   string
	desc  string
}

type c19matrix struct {
	name   string
	init   yjson.TreeNode
	ranges []c19range
	ops1   []c19op
	ops2   []c19op
}

func tr(f1, m1, t1, f2, m2, t2 int, d string) c19range {
	return c19range{[2][3]int{{f1, m1, t1}, {f2, m2, t2}}, d}
}

func c19sel(rg c19range, sel string, user int) (int, int) {
	from, mid, to := rg.r[user][0], rg.r[user][1], rg.r[user][2]
	switch sel {
	case "front":
		return from, from
	case "middle":
		return mid, mid
	case "back":
		return to, to
	case "all":
		return from, to
	case "q1":
		p := (from + mid + 1) / 2
		return p, p
	case "q3":
		p := (mid + to) / 2
		return p, p
	}
	return -1, -1
}

func parseSimpleXML(s string) []string {
	var res []string
	for i := 0; i < len(s); i++ {
		cur := ""
		if s[i] == '<' {
			for i < len(s) && s[i] != '>' {
				cur += string(s[i])
				i++
			}
			cur += string(s[i])
		} else {
			cur += string(s[i])
		}
		res = append(res, cur)
	}
	return res
}

func mergeRange(xml string, from, to int) (int, int) {
	content := parseSimpleXML(xml)
	st, ed := -1, -1
	for i := from + 1; i <= to && i < len(content); i++ {
		if st == -1 && len(content[i]) >= 2 && content[i][0] == '<' && content[i][1] == '/' {
			st = i - 1
		}
		if len(content[i]) >= 2 && content[i][0] == '<' && content[i][1] != '/' {
			ed = i
		}
	}
	return st, ed
}

func (op c19op) apply(root *yjson.Object, rg c19range, user int) {
	from, to := c19sel(rg, op.sel, user)
	t := root.GetTree("t")
	switch op.kind {
	case "edit":
		t.Edit(from, to, op.node, op.level)
	case "merge":
		f, e := mergeRange(t.ToXML(), from, to)
		if f != -1 && e != -1 && f < e {
			t.Edit(f, e, op.node, op.level)
		}
	case "split":
		t.Edit(from, to, op.node, op.level)
	case "style":
		t.Style(from, to, map[string]string{op.key: op.val})
	case "rmstyle":
		t.RemoveStyle(from, to, []string{op.key})
	}
}

func p(text string, attrs map[string]string) yjson.TreeNode {
	return yjson.TreeNode{Type: "p", Children: []yjson.TreeNode{{Type: "text", Value: text}}, Attributes: attrs}
}

func c19Matrices() []c19matrix {
	var ms []c19matrix
	// ---- edit-edit
	{
		tn := func(v string) *yjson.TreeNode { return &yjson.TreeNode{Type: "text", Value: v} }
		en := func(t string) *yjson.TreeNode { return &yjson.TreeNode{Type: t, Children: []yjson.TreeNode{}} }
		mk := func(text *yjson.TreeNode, el *yjson.TreeNode) []c19op {
			return []c19op{
				{sel: "front", kind: "edit", node: text, desc: "insertTextFront"},
				{sel: "middle", kind: "edit", node: text, desc: "insertTextMiddle"},
				{sel: "back", kind: "edit", node: text, desc: "insertTextBack"},
				{sel: "all", kind: "edit", node: text, desc: "replaceText"},
				{sel: "front", kind: "edit", node: el, desc: "insertElementFront"},
				{sel: "middle", kind: "edit", node: el, desc: "insertElementMiddle"},
				{sel: "back", kind: "edit", node: el, desc: "insertElementBack"},
				{sel: "all", kind: "edit", node: el, desc: "replaceElement"},
				{sel: "all", kind: "edit", node: nil, desc: "delete"},
				{sel: "all", kind: "merge", node: nil, desc: "merge"},
			}
		}
		ms = append(ms, c19matrix{
			name: "edit-edit",
			init: yjson.TreeNode{Type: "root", Children: []yjson.TreeNode{p("abc", nil), p("def", nil), p("ghi", nil)}},
			ranges: []c19range{
				tr(0, 5, 10, 5, 10, 15, "intersect-element"),
				tr(1, 2, 3, 2, 3, 4, "intersect-text"),
				tr(0, 5, 15, 5, 5, 10, "contain-element"),
				tr(1, 2, 4, 2, 2, 3, "contain-text"),
				tr(0, 5, 15, 6, 7, 9, "contain-mixed-type"),
				tr(0, 5, 5, 5, 5, 10, "side-by-side-element"),
				tr(1, 1, 2, 2, 3, 4, "side-by-side-text"),
				tr(0, 5, 10, 0, 5, 10, "equal-element"),
				tr(1, 2, 4, 1, 2, 4, "equal-text"),
			},
			ops1: mk(tn("A"), en("b")), ops2: mk(tn("B"), en("i")),
		})
	}
	// ---- split-split
	{
		inner := yjson.TreeNode{Type: "p", Children: []yjson.TreeNode{p("abcd", nil), p("efgh", nil)}}
		mid := yjson.TreeNode{Type: "p", Children: []yjson.TreeNode{inner, p("ijkl", nil)}}
		outer := yjson.TreeNode{Type: "p", Children: []yjson.TreeNode{mid}}
		var ops []c19op
		for _, lv := range []int{1, 2} {
			for _, s := range [][2]string{{"front", "front"}, {"q1", "one-quarter"}, {"q3", "three-quarter"}, {"back", "back"}} {
				ops = append(ops, c19op{sel: s[0], kind: "split", level: lv, desc: fmt.Sprintf("split-%s-%d", s[1], lv)})
			}
		}
		ms = append(ms, c19matrix{
			name: "split-split",
			init: yjson.TreeNode{Type: "root", Children: []yjson.TreeNode{outer}},
			ranges: []c19range{
				tr(3, 6, 9, 3, 6, 9, "equal-single"),
				tr(3, 9, 15, 3, 9, 15, "equal-multiple"),
				tr(3, 9, 15, 9, 12, 15, "A contains B same level"),
				tr(2, 16, 22, 9, 12, 15, "A contains B multiple level"),
				tr(3, 6, 9, 9, 12, 15, "B is next to A"),
			},
			ops1: ops, ops2: ops,
		})
	}
	// ---- split-edit
	{
		it := map[string]string{"italic": "true"}
		inner := yjson.TreeNode{Type: "p", Children: []yjson.TreeNode{p("abcd", it), p("efgh", it)}, Attributes: it}
		outer := yjson.TreeNode{Type: "p", Children: []yjson.TreeNode{inner, p("ijkl", it)}}
		content := &yjson.TreeNode{Type: "i", Children: []yjson.TreeNode{}}
		ms = append(ms, c19matrix{
			name: "split-edit",
			init: yjson.TreeNode{Type: "root", Children: []yjson.TreeNode{outer}},
			ranges: []c19range{
				tr(2, 5, 8, 2, 5, 8, "equal"),
				tr(2, 5, 8, 4, 5, 6, "A contains B"),
				tr(2, 5, 8, 2, 8, 14, "B contains A"),
				tr(2, 5, 8, 3, 4, 5, "left node(text)"),
				tr(2, 5, 8, 5, 6, 7, "right node(text)"),
				tr(2, 8, 14, 2, 5, 8, "left node(element)"),
				tr(2, 8, 14, 8, 11, 14, "right node(element)"),
				tr(2, 5, 8, 8, 11, 14, "A -> B"),
				tr(8, 11, 14, 2, 5, 8, "B -> A"),
			},
			ops1: []c19op{
				{sel: "middle", kind: "split", level: 1, desc: "split-1"},
				{sel: "middle", kind: "split", level: 2, desc: "split-2"},
			},
			ops2: []c19op{
				{sel: "front", kind: "edit", node: content, desc: "insertFront"},
				{sel: "middle", kind: "edit", node: content, desc: "insertMiddle"},
				{sel: "back", kind: "edit", node: content, desc: "insertBack"},
				{sel: "all", kind: "edit", node: content, desc: "replace"},
				{sel: "all", kind: "edit", node: nil, desc: "delete"},
				{sel: "all", kind: "merge", node: nil, desc: "merge"},
				{sel: "all", kind: "style", key: "bold", val: "aa", desc: "style"},
				{sel: "all", kind: "rmstyle", key: "italic", desc: "remove-style"},
			},
		})
	}
	// ---- style-style
	{
		ops := []c19op{
			{sel: "all", kind: "rmstyle", key: "bold", desc: "remove-bold"},
			{sel: "all", kind: "style", key: "bold", val: "aa", desc: "set-bold-aa"},
			{sel: "all", kind: "style", key: "bold", val: "bb", desc: "set-bold-bb"},
			{sel: "all", kind: "rmstyle", key: "italic", desc: "remove-italic"},
			{sel: "all", kind: "style", key: "italic", val: "aa", desc: "set-italic-aa"},
			{sel: "all", kind: "style", key: "italic", val: "bb", desc: "set-italic-bb"},
		}
		ms = append(ms, c19matrix{
			name: "style-style",
			init: yjson.TreeNode{Type: "root", Children: []yjson.TreeNode{p("a", nil), p("b", nil), p("c", nil)}},
			ranges: []c19range{
				tr(3, -1, 6, 3, -1, 6, "equal"),
				tr(0, -1, 9, 3, -1, 6, "contain"),
				tr(0, -1, 6, 3, -1, 9, "intersect"),
				tr(0, -1, 3, 3, -1, 6, "side-by-side"),
			},
			ops1: ops, ops2: ops,
		})
	}
	// ---- edit-style
	{
		red := map[string]string{"color": "red"}
		content := &yjson.TreeNode{Type: "p", Attributes: map[string]string{"italic": "true", "color": "blue"},
			Children: []yjson.TreeNode{{Type: "text", Value: "d"}}}
		ms = append(ms, c19matrix{
			name: "edit-style",
			init: yjson.TreeNode{Type: "root", Children: []yjson.TreeNode{p("a", red), p("b", red), p("c", red)}},
			ranges: []c19range{
				tr(3, 3, 6, 3, -1, 6, "equal"),
				tr(0, 3, 9, 0, 3, 9, "equal multiple"),
				tr(0, 3, 9, 3, -1, 6, "A contains B"),
				tr(3, 3, 6, 0, -1, 9, "B contains A"),
				tr(0, 3, 6, 3, -1, 9, "intersect"),
				tr(0, 3, 3, 3, -1, 6, "A -> B"),
				tr(3, 3, 6, 0, -1, 3, "B -> A"),
			},
			ops1: []c19op{
				{sel: "front", kind: "edit", node: content, desc: "insertFront"},
				{sel: "middle", kind: "edit", node: content, desc: "insertMiddle"},
				{sel: "back", kind: "edit", node: content, desc: "insertBack"},
				{sel: "all", kind: "edit", node: nil, desc: "delete"},
				{sel: "all", kind: "edit", node: content, desc: "replace"},
				{sel: "all", kind: "merge", node: nil, desc: "merge"},
			},
			ops2: []c19op{
				{sel: "all", kind: "rmstyle", key: "color", desc: "remove-color"},
				{sel: "all", kind: "style", key: "bold", val: "aa", desc: "set-bold-aa"},
			},
		})
	}
	return ms
}

func c19OpName(m string, ri int, user int, desc string) string {
	return fmt.Sprintf("c19.%s.r%d.u%d.%s", m, ri, user, desc)
}

var c19Pairs int

func init() {
	for _, m := range c19Matrices() {
		m := m
		hist.Ops["c19.init."+m.name] = &hist.Op{Name: "c19.init." + m.name, Apply: func(r *yjson.Object, _ *document.Presence, v int) {
			r.SetNewTree("t", m.init)
		}}
		for ri, rg := range m.ranges {
			rg := rg
			for user, ops := range [][]c19op{m.ops1, m.ops2} {
				user := user
				for _, op := range ops {
					op := op
					name := c19OpName(m.name, ri, user, op.desc)
					hist.Ops[name] = &hist.Op{Name: name, Apply: func(r *yjson.Object, _ *document.Presence, v int) {
						op.apply(r, rg, user)
					}}
				}
			}
			c19Pairs += len(m.ops1) * len(m.ops2)
		}
	}
}

type c19pair struct {
	matrix, rangeDesc, op1, op2 string
	ri                          int
}

func c19Run(env *Env) *Result {
	res := NewResult()
	var pairs []c19pair
	for _, m := range c19Matrices() {
		for ri, rg := range m.ranges {
			for _, o1 := range m.ops1 {
				for _, o2 := range m.ops2 {
					pairs = append(pairs, c19pair{m.name, rg.desc, o1.desc, o2.desc, ri})
				}
			}
		}
	}
	res.Count("pairs_total", 0)
	if env.Shard == 0 {
		res.Counters["pairs_total"] = len(pairs)
	}
	incomplete := false
	for pi, pr := range pairs {
		if pi%env.NShards != env.Shard {
			continue
		}
		if env.Expired() {
			incomplete = true
			break
		}
		e1 := hist.Event{K: "e", C: 0, Op: c19OpName(pr.matrix, pr.ri, 0, pr.op1)}
		e2 := hist.Event{K: "e", C: 1, Op: c19OpName(pr.matrix, pr.ri, 1, pr.op2)}
		for _, order := range []string{"01", "10"} {
			for _, audience := range []string{"two", "two+snapshot-fed-third", "two+third-fed-by-snapshot-between"} {
				sc := &hist.Scenario{Name: fmt.Sprintf("c19/%s/%s/%s,%s/%s/%s", pr.matrix, pr.rangeDesc, pr.op1, pr.op2, order, audience),
					N: 2, Init: []string{"c19.init." + pr.matrix}, Cfg: hist.Config{Threshold: hist.Big, Interval: hist.Big}}
				h := []hist.Event{e1, e2}
				first, second := 0, 1
				if order == "10" {
					first, second = 1, 0
				}
				switch audience {
				case "two":
					h = append(h, hist.Event{K: "s", C: first}, hist.Event{K: "s", C: second})
				case "two+snapshot-fed-third":
					sc.Late = 1
					sc.Cfg = hist.Config{Threshold: 1, Interval: 1}
					h = append(h, hist.Event{K: "s", C: first}, hist.Event{K: "s", C: second}, hist.Event{K: "at", C: 2})
				default:
					// the third client gets a snapshot that holds only the first edit and
					// then the concurrent second edit as a change: the snapshot must carry
					// what that change needs to resolve (seeded change C02-3)
					// (threshold 2: the attach, two or more changes behind, is answered by
					// a snapshot, the single change afterwards is pulled as a change; with
					// threshold 1 every pull is a snapshot)
					sc.Late = 1
					sc.Cfg = hist.Config{Threshold: 2, Interval: 1}
					h = append(h, hist.Event{K: "s", C: first}, hist.Event{K: "at", C: 2}, hist.Event{K: "s", C: second})
				}
				env.Current(&Found{Property: "C19", Scenario: sc, Hist: h})
				viol := c19Eval(sc, h, res)
				res.Evaluations++
				res.Nontrivial++
				if len(res.Samples) < 3 && pi%211 == 0 {
					res.Sample(map[string]any{"pair": sc.Name, "history": hist.HistString(h)})
				}
				for _, v := range viol {
					if v.Kind == "harness" {
						res.HarnessErr = append(res.HarnessErr, v.Detail)
						continue
					}
					cls := "diverge"
					if v.Kind != "diverge" && v.Kind != "clone-ne-root" {
						cls = "error"
					}
					if v.Kind == "clone-ne-root" {
						cls = "clone-ne-root"
					}
					cfg := sc.Cfg
					res.AddFound(Found{Property: "C19", Kind: v.Kind, Sig: v.Sig, Detail: sc.Name + "\n" + v.Detail, Scenario: sc, Cfg: &cfg, Hist: h,
						Core: fmt.Sprintf("%s|%s|%s|%s|%s", cls, pr.matrix, pr.rangeDesc, pr.op1, pr.op2)})
				}
			}
		}
	}
	if incomplete {
		res.Incomplete = append(res.Incomplete, "c19/matrices")
	} else if env.Shard == 0 {
		res.Completed = append(res.Completed, "c19/all-five-matrices")
	}
	return res
}

func c19Eval(sc *hist.Scenario, h []hist.Event, res *Result) []hist.Violation {
	r, err := Runner()
	if err != nil {
		return []hist.Violation{{Kind: "harness", Sig: "harness", Detail: err.Error()}}
	}
	r.AfterEvent = []func(x *hist.Exec, i int){cloneEqRootObserver}
	x := r.Run(sc, sc.Cfg, h)
	r.AfterEvent = nil
	defer x.Close()
	x.Quiesce()
	convergenceOracle(x)
	if len(x.Viol) == 0 && x.Quiesced {
		cloneEqRoot(x)
	}
	if res != nil && len(x.Viol) == 0 && len(x.Reps) > 0 {
		res.Outcome(x.Reps[0].Doc.Marshal())
		res.Count("snapshots_pulled", x.SnapshotsPulled)
	}
	return x.Viol
}

func init() {
	register(&Check{
		ID:    "C19",
		Level: "exploration",
		Rule: "the five upstream tree-concurrency matrices re-encoded as data (edit-edit 9 ranges x 10 x 10, split-split 5 x 8 x 8, split-edit 9 x 2 x 8, style-style 4 x 6 x 6, edit-style 7 x 6 x 2 = 1592 pairs) " +
			"x both sync orders x {two clients; plus a third passive client fed by snapshot (threshold 1) after both edits; plus a third client fed by a snapshot that holds only the first edit and then the concurrent second edit as a change}; complete enumeration (quick == thorough); " +
			"oracle: no error/panic, replicas byte-identical after the quiescent closure and equal to the server rebuild, Root()==Marshal() after every event; " +
			"each execution applies two concurrent edits (all non-trivial, distinct by construction)",
		Assume:      []string{"memdb backend"},
		QuickBudget: 300 * time.Second,
		Run:         c19Run,
		Reproduce: func(f *Found) (bool, error) {
			sc := *f.Scenario
			viol := c19Eval(&sc, f.Hist, nil)
			for _, v := range viol {
				if v.Kind == f.Kind {
					return true, nil
				}
			}
			return false, nil
		},
	})
	_ = strings.Join
}
