package hist

import "testing"

func TestCount(t *testing.T) {
	for _, ky := range [][2]int{{2, 2}, {2, 3}, {2, 4}, {3, 3}, {3, 4}, {3, 5}, {3, 6}} {
		for _, na := range []int{1, 2, 3} {
			al := []string{"a", "b", "c"}[:na]
			sc := &Scenario{N: 2, Alphabet: al, K: ky[0], Y: ky[1]}
			t.Logf("N=2 |A|=%d K=%d Y=%d: %d", na, ky[0], ky[1], CountHistories(sc))
		}
	}
	sc := &Scenario{N: 3, Alphabet: []string{"a", "b"}, K: 3, Y: 4, MaxPerClient: 1}
	t.Logf("N=3 |A|=2 K=3 Y=4 max1: %d", CountHistories(sc))
	sc = &Scenario{N: 3, Alphabet: []string{"a"}, K: 3, Y: 5, MaxPerClient: 1}
	t.Logf("N=3 |A|=1 K=3 Y=5 max1: %d", CountHistories(sc))
}
