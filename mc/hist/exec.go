package hist

import (
	"context"
	"fmt"
	"io"
	"log"
	"net/http"
	"os"
	"regexp"
	"runtime/debug"
	"sort"
	"strings"
	gotime "time"

	"google.golang.org/protobuf/proto"

	"github.com/yorkie-team/yorkie/api/types"
	api "github.com/yorkie-team/yorkie/api/yorkie/v1"
	"github.com/yorkie-team/yorkie/client"
	"github.com/yorkie-team/yorkie/pkg/document"
	"github.com/yorkie-team/yorkie/pkg/document/crdt"
	"github.com/yorkie-team/yorkie/pkg/document/json"
	"github.com/yorkie-team/yorkie/pkg/document/presence"
	"github.com/yorkie-team/yorkie/pkg/document/time"
	"github.com/yorkie-team/yorkie/pkg/key"
	"github.com/yorkie-team/yorkie/server/backend/database"
	"github.com/yorkie-team/yorkie/server/documents"
	"github.com/yorkie-team/yorkie/pkg/document/yson"
	"github.com/yorkie-team/yorkie/server/packs"
	"github.com/yorkie-team/yorkie/server/revisions"

	"verifmc/world"
)

func init() { log.SetOutput(io.Discard) }

// Event is one step of a history.
type Event struct {
	// K is the kind: e(dit) s(ync) at(tach) dt(detach) un(do) re(do) po(push-only
	// sync) evict compact compactF deact
	K  string `json:"k"`
	C  int    `json:"c"`
	Op string `json:"op,omitempty"`
}

func (e Event) String() string {
	switch e.K {
	case "e":
		return fmt.Sprintf("%d:%s", e.C, e.Op)
	case "evict", "compact", "compactF", "rev", "rst":
		return e.K
	case "fu":
		return fmt.Sprintf("%d:fu[%s]", e.C, e.Op)
	default:
		return fmt.Sprintf("%d:%s", e.C, e.K)
	}
}

// HistString renders a history compactly.
func HistString(h []Event) string {
	parts := make([]string, len(h))
	for i, e := range h {
		parts[i] = e.String()
	}
	return strings.Join(parts, " ")
}

var errFailedUpdate = fmt.Errorf("updater failed on purpose")

// IsServer reports whether the event talks to the server.
func (e Event) IsServer() bool { return e.K != "e" && e.K != "un" && e.K != "re" && e.K != "fu" }

// Config selects the world knobs of one execution.
type Config struct {
	Threshold int64 `json:"threshold"` // snapshot threshold of the project
	Interval  int64 `json:"interval"`  // snapshot interval of the project
	// NoGC: replicas are created with document.WithDisableGC() and the server
	// builds snapshots with SnapshotDisableGC (the GC-off twin).
	NoGC bool `json:"nogc,omitempty"`
	// NoPresence: every attach passes WithDisablePresence.
	NoPresence bool `json:"nopresence,omitempty"`
	// ColdCache: purge the snapshot cache before every request.
	ColdCache bool `json:"coldcache,omitempty"`
	// LateOpposite: late clients (role >= N) pass the opposite of NoPresence.
	LateOpposite bool `json:"late_opposite,omitempty"`
	// OptOut lists roles that attach with client.WithDisableGC().
	OptOut []int `json:"optout,omitempty"`
}

// IsOptOut reports whether the role attaches with disable_gc.
func (c Config) IsOptOut(role int) bool {
	for _, r := range c.OptOut {
		if r == role {
			return true
		}
	}
	return false
}

// Replica is one client + document.
type Replica struct {
	Role     int
	Cli      *client.Client
	Doc      *document.Document
	Attached bool
	// EverAttached: the current Document instance has been attached before.
	EverAttached bool
	// Dirty is set when a sync of this replica failed.
	SyncErrs int
	stop     chan struct{}
}

// Step records what one event did.
type Step struct {
	Ev       Event
	Err      string
	NoEffect bool // an edit that produced no change
	// ViolFrom is the index in Exec.Viol of the first violation this step added
	// (== len(Viol) after the step if none).
	ViolFrom int
	nviol    int
	// Faulted: the event ran under a fault plan.
	Faulted bool
	// Calls / Fired: storage calls made and whether the plan injected.
	Calls []string
	Fired bool
}

// CallsAt returns the storage calls recorded for step i.
func (x *Exec) CallsAt(i int) []string { return x.Steps[i].Calls }

// FaultFiredAt reports whether step i's fault plan injected.
func (x *Exec) FaultFiredAt(i int) bool { return x.Steps[i].Fired }

// AnyFaultFired reports whether any step injected a fault.
func (x *Exec) AnyFaultFired() bool {
	for _, s := range x.Steps {
		if s.Fired {
			return true
		}
	}
	return false
}

func violBefore(x *Exec, st Step) int { return st.nviol }

// Violation is one oracle failure.
type Violation struct {
	Kind   string `json:"kind"`   // oracle kind: sync-error, diverge, panic, ...
	Sig    string `json:"sig"`    // normalised signature used for matching known findings
	Detail string `json:"detail"` // free text
	// Core, when set, overrides the default identity used for known findings.
	Core string `json:"core,omitempty"`
}

// Exec is a finished (or aborted) execution.
type Exec struct {
	Sc       *Scenario
	Cfg      Config
	Hist     []Event
	R        *Runner
	Project  *types.Project
	DocKey   key.Key
	Reps     []*Replica
	Steps    []Step
	Viol     []Violation
	Aborted  bool
	Quiesced bool
	Rounds   int
	ctx      context.Context
	cancel   context.CancelFunc
	// Counters for anti-vacuity.
	SnapshotsPulled int
	// Purged counts nodes garbage-collected on replicas during syncs.
	Purged     int
	valCounter int
	// OnRPC observes every change-pack carrying RPC of this execution.
	OnRPC func(rpc *RPC)
	// KeepRaw keeps raw request/response bytes in RPC.
	KeepRaw bool
	// Data is scratch space for observers.
	Data map[string]any
	// pending is the fault plan for the next server event (set by a "fault" event).
	pending *FaultPlan
	// LastCalls are the storage calls of the last armed server event.
	LastCalls []string
	// FaultFired reports whether the last armed plan actually injected.
	FaultFired bool
	// Created records, for every locally created change, what its author had
	// applied at creation time.
	Created []CreatedRec
	// ReqVV is each replica's Document.VersionVector() right before its last request.
	ReqVV map[int]time.VersionVector
}

// CreatedRec describes one locally created change.
type CreatedRec struct {
	Role      int
	ClientSeq uint32
	// CpServerSeq: every change with serverSeq <= this had been applied.
	CpServerSeq int64
}

// RoleOf maps a hex client id to a role (-1 if unknown).
func (x *Exec) RoleOf(clientID string) int {
	for _, rep := range x.Reps {
		if rep.Cli.ID().String() == clientID {
			return rep.Role
		}
	}
	return -1
}

func (x *Exec) recordCreated(rep *Replica, before int, cp int64) {
	cs := rep.Doc.CreateChangePack().Changes
	for _, c := range cs[min(before, len(cs)):] {
		x.Created = append(x.Created, CreatedRec{Role: rep.Role, ClientSeq: c.ClientSeq(), CpServerSeq: cp})
	}
}

func (x *Exec) noteReqVV(rep *Replica) {
	if x.ReqVV == nil {
		x.ReqVV = map[int]time.VersionVector{}
	}
	x.ReqVV[rep.Role] = rep.Doc.VersionVector().DeepCopy()
}

// Runner owns a world and runs executions on it.
type Runner struct {
	W        *world.World
	projects map[[2]int64]*types.Project
	Execs    int
	// AfterEvent observers, called after every event of the history (not setup).
	AfterEvent []func(x *Exec, i int)
	// BeforeEvent observers, called before every event of the history.
	BeforeEvent []func(x *Exec, i int)
	MaxExecs    int
	// Trace, when set, receives a line per step (debugging / replay output).
	Trace io.Writer
	cur   *Exec
	// Prepare, when set, is called on the fresh Exec before anything runs (to
	// install OnRPC etc.).
	Prepare func(x *Exec)
}

func (x *Exec) trace(label string, err error) {
	w := x.R.Trace
	if w == nil {
		return
	}
	fmt.Fprintf(w, "-- %s err=%v\n", label, err)
	for _, rep := range x.Reps {
		fmt.Fprintf(w, "   c%d att=%v cp=%s local=%d vv=%s garbage=%d %s\n", rep.Role, rep.Attached,
			rep.Doc.Checkpoint().String(), len(rep.Doc.CreateChangePack().Changes),
			vvString(x, rep.Doc.VersionVector()), rep.Doc.GarbageLen(), rep.Doc.Marshal())
		if os.Getenv("VERIF_TRACE_ARR") != "" {
			if a, ok := rep.Doc.RootObject().Get("a").(*crdt.Array); ok && a != nil {
				for _, n := range a.RGATreeList().AllNodes() {
					fmt.Fprintf(w, "        pos=%s posAt=%s removed=%v rmAt=%s elem=%s\n", x.tk(n.PositionCreatedAt()), x.tk(n.PositionedAt()), n.IsRemoved(), x.tk(n.RemovedAt()), n.String())
				}
			}
		}
	}
}

func (x *Exec) tk(t *time.Ticket) string {
	if t == nil {
		return "-"
	}
	role := "?"
	for _, rep := range x.Reps {
		if rep.Cli.ID().String() == t.ActorID().String() {
			role = fmt.Sprint(rep.Role)
		}
	}
	if t.ActorID().String() == time.InitialActorID.String() {
		role = "init"
	}
	return fmt.Sprintf("%d:%d:c%s", t.Lamport(), t.Delimiter(), role)
}

func vvString(x *Exec, vv time.VersionVector) string {
	var parts []string
	for _, rep := range x.Reps {
		if l, ok := vv.Get(rep.Cli.ID()); ok {
			parts = append(parts, fmt.Sprintf("c%d:%d", rep.Role, l))
		}
	}
	return "{" + strings.Join(parts, ",") + "}"
}

// NewRunner creates a runner with a fresh world.
func NewRunner() (*Runner, error) {
	w, err := world.New(world.Options{UseDefaultProject: true})
	if err != nil {
		return nil, err
	}
	r := &Runner{W: w, projects: map[[2]int64]*types.Project{}, MaxExecs: 400}
	r.installObserver()
	return r, nil
}

// RPC is one observed unary call.
type RPC struct {
	Proc     string // AttachDocument, PushPullChanges, DetachDocument, ...
	ClientID string
	Status   int
	Req      *api.ChangePack // request change pack (nil if none)
	Resp     *api.ChangePack // response change pack (nil on error)
	ReqRaw   []byte
	ResRaw   []byte
}

func (r *Runner) installObserver() {
	r.W.Transport.Observe = func(path string, reqBody []byte, status int, respBody []byte) {
		x := r.cur
		if x == nil {
			return
		}
		i := strings.LastIndexByte(path, '/')
		proc := path[i+1:]
		rpc := &RPC{Proc: proc, Status: status}
		if x.KeepRaw {
			rpc.ReqRaw, rpc.ResRaw = reqBody, respBody
		}
		switch proc {
		case "PushPullChanges":
			var q api.PushPullChangesRequest
			var p api.PushPullChangesResponse
			if proto.Unmarshal(reqBody, &q) == nil {
				rpc.Req = q.ChangePack
				rpc.ClientID = q.ClientId
			}
			if status == 200 && proto.Unmarshal(respBody, &p) == nil {
				rpc.Resp = p.ChangePack
			}
		case "AttachDocument":
			var q api.AttachDocumentRequest
			var p api.AttachDocumentResponse
			if proto.Unmarshal(reqBody, &q) == nil {
				rpc.Req = q.ChangePack
				rpc.ClientID = q.ClientId
			}
			if status == 200 && proto.Unmarshal(respBody, &p) == nil {
				rpc.Resp = p.ChangePack
			}
		case "DetachDocument":
			var q api.DetachDocumentRequest
			var p api.DetachDocumentResponse
			if proto.Unmarshal(reqBody, &q) == nil {
				rpc.Req = q.ChangePack
				rpc.ClientID = q.ClientId
			}
			if status == 200 && proto.Unmarshal(respBody, &p) == nil {
				rpc.Resp = p.ChangePack
			}
		default:
			return
		}
		if rpc.Resp != nil && len(rpc.Resp.Snapshot) > 0 {
			x.SnapshotsPulled++
		}
		if x.OnRPC != nil {
			x.OnRPC(rpc)
		}
	}
}

// Recycle replaces the world when it has served many executions.
func (r *Runner) Recycle() error {
	if r.Execs < r.MaxExecs {
		return nil
	}
	r.W.WaitBackground()
	r.W.Close()
	w, err := world.New(world.Options{UseDefaultProject: true})
	if err != nil {
		return err
	}
	r.W = w
	r.projects = map[[2]int64]*types.Project{}
	r.Execs = 0
	r.installObserver()
	return nil
}

// Project returns (creating on first use) the project with the given snapshot settings.
func (r *Runner) Project(th, iv int64) (*types.Project, error) { return r.project(th, iv) }

func (r *Runner) project(th, iv int64) (*types.Project, error) {
	k := [2]int64{th, iv}
	if p, ok := r.projects[k]; ok {
		return p, nil
	}
	p, err := r.W.NewProject(fmt.Sprintf("p-%d-%d-%d", th, iv, r.W.NextID()), th, iv)
	if err != nil {
		return nil, err
	}
	r.projects[k] = p
	return p, nil
}

func (x *Exec) violate(kind, sig, detail string) {
	x.Viol = append(x.Viol, Violation{Kind: kind, Sig: sig, Detail: detail})
}

// Big is the "never" snapshot threshold.
const Big = int64(1 << 40)

// newReplica dials, activates.
func (x *Exec) newReplica(role int) (*Replica, error) {
	cli, err := x.R.W.Dial(x.Project, client.WithSyncLoopDuration(24*gotime.Hour))
	if err != nil {
		return nil, err
	}
	if err := cli.Activate(x.ctx); err != nil {
		return nil, err
	}
	var opts []document.Option
	if x.Cfg.NoGC {
		opts = append(opts, document.WithDisableGC())
	}
	d := document.New(x.DocKey, opts...)
	rep := &Replica{Role: role, Cli: cli, Doc: d, stop: make(chan struct{})}
	stop := rep.stop
	go func() {
		ev := d.Events()
		for {
			select {
			case <-ev:
			case <-stop:
				return
			}
		}
	}()
	return rep, nil
}

func (x *Exec) attach(rep *Replica) error {
	var opts []interface{}
	noPresence := x.Cfg.NoPresence
	if x.Cfg.LateOpposite && x.Sc != nil && rep.Role >= x.Sc.N {
		noPresence = !noPresence
	}
	if noPresence {
		opts = append(opts, client.WithDisablePresence())
	} else if x.Sc != nil && x.Sc.InitialPresence {
		opts = append(opts, client.WithPresence(presence.Data{"k1": fmt.Sprintf("init%d", rep.Role)}))
	}
	if x.Cfg.IsOptOut(rep.Role) {
		opts = append(opts, client.WithDisableGC())
	}
	x.noteReqVV(rep)
	if err := rep.Cli.Attach(x.ctx, rep.Doc, opts...); err != nil {
		return err
	}
	rep.Attached = true
	rep.EverAttached = true
	return nil
}

// freshDoc gives the replica a new Document instance for the same key.
func (x *Exec) freshDoc(rep *Replica) {
	close(rep.stop)
	var opts []document.Option
	if x.Cfg.NoGC {
		opts = append(opts, document.WithDisableGC())
	}
	d := document.New(x.DocKey, opts...)
	rep.Doc = d
	rep.stop = make(chan struct{})
	stop := rep.stop
	go func() {
		ev := d.Events()
		for {
			select {
			case <-ev:
			case <-stop:
				return
			}
		}
	}()
}

// Guard is guard for other packages.
func Guard(f func() error) (error, bool) { return guard(f) }

// guard runs f, converting a panic into an error string with stack.
func guard(f func() error) (err error, panicked bool) {
	defer func() {
		if r := recover(); r != nil {
			err = fmt.Errorf("PANIC: %v\n%s", r, debug.Stack())
			panicked = true
		}
	}()
	return f(), false
}

// Run executes history h under scenario sc / config cfg and then the quiescent
// closure. The returned Exec is live (replicas can be inspected) until Close.
func (r *Runner) Run(sc *Scenario, cfg Config, h []Event) *Exec {
	r.Execs++
	x := &Exec{Sc: sc, Cfg: cfg, Hist: h, R: r, Data: map[string]any{}}
	x.ctx, x.cancel = context.WithCancel(context.Background())
	r.cur = x
	Facts = map[string]bool{}
	if r.Prepare != nil {
		r.Prepare(x)
	}
	p, err := r.project(cfg.Threshold, cfg.Interval)
	if err != nil {
		x.violate("harness", "harness", err.Error())
		x.Aborted = true
		return x
	}
	x.Project = p
	x.DocKey = key.Key(fmt.Sprintf("doc-%d", r.W.NextID()))
	r.W.BE.Config.SnapshotDisableGC = cfg.NoGC

	total := sc.N + sc.Late
	for i := 0; i < total; i++ {
		rep, err := x.newReplica(i)
		if err != nil {
			x.violate("harness", "harness", "activate: "+err.Error())
			x.Aborted = true
			return x
		}
		x.Reps = append(x.Reps, rep)
	}
	// Roles are assigned by ascending actor id.
	sort.SliceStable(x.Reps, func(i, j int) bool {
		return x.Reps[i].Cli.ID().String() < x.Reps[j].Cli.ID().String()
	})
	for i, rep := range x.Reps {
		rep.Role = i
	}

	// Setup: attach the first N, init by client 0, sync everyone.
	for i := 0; i < sc.N; i++ {
		if err, _ := guard(func() error { return x.attach(x.Reps[i]) }); err != nil {
			x.violate("setup", "setup-attach", err.Error())
			x.Aborted = true
			return x
		}
	}
	for _, op := range sc.Init {
		nb := len(x.Reps[0].Doc.CreateChangePack().Changes)
		cpb := x.Reps[0].Doc.Checkpoint().ServerSeq
		err := x.edit(x.Reps[0], op)
		x.recordCreated(x.Reps[0], nb, cpb)
		if err != nil {
			x.violate("setup", "setup-edit:"+op, err.Error())
			x.Aborted = true
			return x
		}
	}
	for _, se := range sc.Setup {
		st := x.step(se)
		if st.Err != "" {
			x.violate("setup", "setup-step:"+se.String(), st.Err)
			x.Aborted = true
			return x
		}
	}
	if len(sc.Init) > 0 || len(sc.Setup) > 0 || sc.N > 1 {
		// Client 0 pushes the initial content, the others pull it, then client 0
		// syncs once more so that every replica starts at the log head.
		order := []int{}
		for i := 0; i < sc.N; i++ {
			order = append(order, i)
		}
		if sc.N > 1 {
			order = append(order, 0)
		}
		for _, i := range order {
			if !x.Reps[i].Attached {
				continue
			}
			if err, _ := guard(func() error { return x.sync(x.Reps[i]) }); err != nil {
				x.violate("setup", "setup-sync", err.Error())
				x.Aborted = true
				return x
			}
		}
	}

	// Setup edits are not part of the explored alphabet: they must not be
	// reachable through undo.
	for _, rep := range x.Reps {
		_ = rep.Doc.ClearHistory()
	}

	// The history proper.
	for i, e := range h {
		for _, f := range r.BeforeEvent {
			f(x, i)
		}
		st := x.step(e)
		st.ViolFrom = violBefore(x, st)
		if st.Faulted {
			st.Calls = append([]string(nil), x.LastCalls...)
			st.Fired = x.FaultFired
		}
		x.Steps = append(x.Steps, st)
		if x.Aborted {
			return x
		}
		for _, f := range r.AfterEvent {
			f(x, i)
		}
	}
	return x
}

// step executes one event.
func (x *Exec) step(e Event) Step {
	st := Step{Ev: e, nviol: len(x.Viol)}
	var rep *Replica
	if e.C >= 0 && e.C < len(x.Reps) {
		rep = x.Reps[e.C]
	}
	if x.Cfg.ColdCache && e.IsServer() {
		x.R.W.PurgeSnapshotCache()
	}
	var err error
	var panicked bool
	if e.K == "fault" {
		var p FaultPlan
		fmt.Sscanf(e.Op, "%d/%s", &p.Call, &p.Mode)
		x.pending = &p
		return st
	}
	if x.pending != nil && e.IsServer() {
		disarm := x.armFault(x.pending)
		x.pending = nil
		st.Faulted = true
		defer disarm()
	}
	switch e.K {
	case "e":
		if !rep.Attached {
			// edits on a replica that is not attached are outside the explored space
			st.NoEffect = true
			break
		}
		before := len(rep.Doc.CreateChangePack().Changes)
		cp := rep.Doc.Checkpoint().ServerSeq
		err, panicked = guard(func() error { return x.edit(rep, e.Op) })
		if err == nil && len(rep.Doc.CreateChangePack().Changes) == before {
			st.NoEffect = true
		}
		x.recordCreated(rep, before, cp)
		if err != nil && !panicked {
			x.violate("edit-error", "edit-error:"+e.Op, err.Error())
		}
	case "s":
		if !rep.Attached {
			st.NoEffect = true
			break
		}
		err, panicked = guard(func() error { return x.sync(rep) })
		if err != nil && !panicked {
			rep.SyncErrs++
			x.violate("sync-error", "sync-error:"+NormErr(err.Error()), fmt.Sprintf("client %d: %v", e.C, err))
		}
	case "po":
		if !rep.Attached {
			st.NoEffect = true
			break
		}
		err, panicked = guard(func() error {
			e := rep.Cli.Sync(x.ctx, client.WithKey(x.DocKey).WithPushOnly())
			x.R.W.WaitBackground()
			return e
		})
		if err != nil && !panicked {
			x.violate("sync-error", "sync-error:"+NormErr(err.Error()), fmt.Sprintf("client %d: %v", e.C, err))
		}
	case "at":
		if rep.Attached || !rep.Cli.IsActive() {
			st.NoEffect = true
			break
		}
		if rep.EverAttached {
			// A detached document instance cannot be attached again (documented
			// lifecycle): re-attaching means a new Document for the same key.
			if rep.Doc.Status() == document.StatusRemoved {
				st.NoEffect = true
				break
			}
			x.freshDoc(rep)
		}
		err, panicked = guard(func() error {
			e := x.attach(rep)
			x.R.W.WaitBackground()
			return e
		})
		if err != nil && !panicked {
			x.violate("attach-error", "attach-error:"+NormErr(err.Error()), fmt.Sprintf("client %d: %v", e.C, err))
		}
	case "dt":
		if !rep.Attached {
			st.NoEffect = true
			break
		}
		err, panicked = guard(func() error {
			e := rep.Cli.Detach(x.ctx, rep.Doc)
			x.R.W.WaitBackground()
			return e
		})
		if err == nil {
			rep.Attached = false
		}
		if err != nil && !panicked {
			x.violate("detach-error", "detach-error:"+NormErr(err.Error()), fmt.Sprintf("client %d: %v", e.C, err))
		}
	case "deact":
		if !rep.Cli.IsActive() {
			st.NoEffect = true
			break
		}
		err, panicked = guard(func() error {
			e := rep.Cli.Deactivate(x.ctx)
			x.R.W.WaitBackground()
			return e
		})
		if err == nil {
			rep.Attached = false
		}
		if err != nil && !panicked {
			x.violate("deactivate-error", "deactivate-error:"+NormErr(err.Error()), fmt.Sprintf("client %d: %v", e.C, err))
		}
	case "un", "re":
		can := rep.Doc.CanUndo()
		if e.K == "re" {
			can = rep.Doc.CanRedo()
		}
		if !can {
			st.NoEffect = true
			break
		}
		ubefore := len(rep.Doc.CreateChangePack().Changes)
		ucp := rep.Doc.Checkpoint().ServerSeq
		err, panicked = guard(func() error {
			if e.K == "un" {
				return rep.Doc.Undo()
			}
			return rep.Doc.Redo()
		})
		x.recordCreated(rep, ubefore, ucp)
		if err != nil && !panicked {
			x.violate("undo-error", e.K+"-error:"+NormErr(err.Error()), fmt.Sprintf("client %d: %v", e.C, err))
		}
	case "fu":
		// a failed update: the updater edits, then returns an error; nothing may
		// change, and the document re-clones its working copy from the root
		if !rep.Attached {
			st.NoEffect = true
			break
		}
		if n := len(x.Steps); n > 0 && x.Steps[n-1].Ev.K == "fu" && x.Steps[n-1].Ev.C == e.C && x.Steps[n-1].Ev.Op == e.Op {
			st.NoEffect = true // two in a row add nothing
			break
		}
		before := rep.Doc.Marshal()
		nb := len(rep.Doc.CreateChangePack().Changes)
		var uerr error
		uerr, panicked = guard(func() error {
			return rep.Doc.Update(func(r *json.Object, p *presence.Presence) error {
				if op := Ops[e.Op]; op != nil {
					op.Apply(r, p, 900+len(x.Steps))
				}
				r.SetInteger("zz", 1)
				return errFailedUpdate
			})
		})
		if panicked {
			err = uerr
		} else if uerr == nil {
			x.violate("failed-update", "failed-update:accepted", "an updater that returned an error was accepted")
		} else if after := rep.Doc.Marshal(); after != before || len(rep.Doc.CreateChangePack().Changes) != nb {
			x.violate("failed-update", "failed-update:changed", fmt.Sprintf("before %s\nafter  %s", before, after))
		}
	case "rev":
		// create a revision of the document as the server holds it now
		var y string
		err, panicked = guard(func() error {
			di, e := x.DocInfo()
			if e != nil {
				return e
			}
			before, e := x.ServerYSON()
			if e != nil {
				return e
			}
			rev, e := revisions.Create(x.ctx, x.R.W.BE, di.RefKey(), fmt.Sprintf("rev-%d", len(x.Steps)), "")
			if e != nil {
				return e
			}
			y = rev.Snapshot
			x.Data["revID"], x.Data["revY"] = rev.ID, y
			if y != before {
				x.violate("revision", "revision:content-at-creation", fmt.Sprintf("the revision does not hold the content the server had\n  server:   %s\n  revision: %s", before, y))
			}
			return nil
		})
		if err != nil && !panicked {
			x.violate("revision", "revision:create-error:"+NormErr(err.Error()), err.Error())
		}
	case "rst":
		// restore the latest revision; right afterwards the server's document
		// holds exactly the revision's content
		id, ok := x.Data["revID"].(types.ID)
		if !ok {
			st.NoEffect = true
			break
		}
		err, panicked = guard(func() error {
			if e := revisions.Restore(x.ctx, x.R.W.BE, x.Project, id); e != nil {
				return e
			}
			x.R.W.WaitBackground()
			after, e := x.ServerYSON()
			if e != nil {
				return e
			}
			if want := x.Data["revY"].(string); after != want {
				x.violate("revision", "revision:content-after-restore", fmt.Sprintf("after the restore the server's document differs from the revision\n  revision: %s\n  server:   %s", want, after))
			}
			return nil
		})
		if err != nil && !panicked {
			x.violate("revision", "revision:restore-error:"+NormErr(err.Error()), err.Error())
		}
	case "evict":
		x.R.W.PurgeSnapshotCache()
	case "compact", "compactF":
		err, panicked = guard(func() error { return x.compact(e.K == "compactF") })
		if err != nil && !panicked {
			st.Err = err.Error() // refusal is legal; oracles decide
			err = nil
		}
	default:
		err = fmt.Errorf("unknown event kind %q", e.K)
		x.violate("harness", "harness", err.Error())
	}
	if panicked {
		x.violate("panic", "panic:"+e.K+":"+NormErr(firstLine(err.Error())), err.Error())
		x.Aborted = true
	}
	if err != nil {
		st.Err = err.Error()
	}
	x.trace(e.String(), err)
	return st
}

func firstLine(s string) string {
	if i := strings.IndexByte(s, '\n'); i >= 0 {
		return s[:i]
	}
	return s
}

// NormErr strips tickets, ids and numbers from an error so that it can serve as
// a signature.
func NormErr(s string) string {
	s = rePtr.ReplaceAllString(s, "<ptr>")
	s = reTicket.ReplaceAllString(s, "<ticket>")
	s = reHex.ReplaceAllString(s, "#")
	s = reNum.ReplaceAllString(s, "N")
	if len(s) > 160 {
		s = s[:160]
	}
	return s
}

var (
	reTicket = regexp.MustCompile(`\d+:\d+:[A-Za-z0-9+/=_-]+(:\d+)?`)
	rePtr    = regexp.MustCompile(`0x[0-9a-f]+`)
	reHex    = regexp.MustCompile(`[0-9a-f]{12,}`)
	reNum    = regexp.MustCompile(`\d+`)
)

func (x *Exec) edit(rep *Replica, opName string) error {
	op := Ops[opName]
	if op == nil {
		return fmt.Errorf("unknown op %q", opName)
	}
	x.valCounter++
	v := x.valCounter
	return rep.Doc.Update(func(r *json.Object, p *document.Presence) error {
		op.Apply(r, p, v)
		return nil
	})
}

func (x *Exec) sync(rep *Replica) error {
	g0 := rep.Doc.GarbageLen()
	x.noteReqVV(rep)
	err := rep.Cli.Sync(x.ctx, client.WithKey(x.DocKey))
	x.R.W.WaitBackground()
	if g1 := rep.Doc.GarbageLen(); g1 < g0 {
		x.Purged += g0 - g1
	}
	return err
}

// FaultPlan is a single injected fault for the next server event.
type FaultPlan struct {
	Call int    // index of the storage call within the request (mode b/a)
	Mode string // b = error before the call, a = error after it took effect, r = response lost, n = none (record only)
}

// ErrInjectedDB is the injected storage error.
var ErrInjectedDB = fmt.Errorf("verif: injected storage fault")

// armFault installs the plan for the duration of one server event and returns
// a disarm function. Calls are recorded in x.LastCalls.
func (x *Exec) armFault(p *FaultPlan) func() {
	x.LastCalls = nil
	x.FaultFired = false
	w := x.R.W
	n := 0
	w.DBW.Before = func(m string) error {
		idx := n
		n++
		x.LastCalls = append(x.LastCalls, m)
		if p.Mode == "b" && idx == p.Call {
			x.FaultFired = true
			return ErrInjectedDB
		}
		return nil
	}
	w.DBW.After = func(m string, err error) error {
		if p.Mode == "a" && len(x.LastCalls)-1 == p.Call && err == nil && !x.FaultFired {
			x.FaultFired = true
			return ErrInjectedDB
		}
		return nil
	}
	if p.Mode == "r" {
		first := true
		w.Transport.FaultFn = func(req *http.Request) world.Fault {
			if first {
				first = false
				x.FaultFired = true
				return world.FaultDropResponse
			}
			return world.FaultNone
		}
	}
	return func() {
		w.DBW.Before, w.DBW.After = nil, nil
		w.Transport.FaultFn = nil
	}
}

// StepPublic executes one extra event outside the enumerated history.
func (x *Exec) StepPublic(e Event) Step { return x.step(e) }

// FreshAttachMarshal attaches a brand-new client with a new document and
// returns what it sees; the client is detached again afterwards.
func (x *Exec) FreshAttachMarshal() (string, error) {
	rep, err := x.newReplica(len(x.Reps))
	if err != nil {
		return "", err
	}
	defer close(rep.stop)
	var out string
	err, _ = guard(func() error {
		if e := rep.Cli.Attach(x.ctx, rep.Doc); e != nil {
			return e
		}
		out = rep.Doc.Marshal()
		e := rep.Cli.Detach(x.ctx, rep.Doc)
		x.R.W.WaitBackground()
		return e
	})
	return out, err
}

// DocInfo finds the server-side document.
func (x *Exec) DocInfo() (*database.DocInfo, error) {
	return documents.FindDocInfoByKey(x.ctx, x.R.W.BE, x.Project, x.DocKey)
}

func (x *Exec) compact(force bool) error {
	di, err := x.DocInfo()
	if err != nil {
		return err
	}
	ok, err := documents.CompactDocument(x.ctx, x.R.W.BE, x.Project, di, force)
	if err != nil {
		return err
	}
	if !ok {
		return fmt.Errorf("compaction not performed")
	}
	return nil
}

// ServerMarshal rebuilds the document on the server at the given serverSeq
// (0 = head) and marshals it.
func (x *Exec) ServerMarshal(seq int64) (string, error) {
	di, err := x.DocInfo()
	if err != nil {
		return "", err
	}
	if seq == 0 {
		seq = di.ServerSeq
	}
	var out string
	err, _ = guard(func() error {
		d, e := packs.BuildInternalDocForServerSeq(x.ctx, x.R.W.BE, di, seq)
		if e != nil {
			return e
		}
		out = d.Marshal()
		return nil
	})
	return out, err
}

// ServerYSON renders the server's rebuild of the document at the head as YSON
// text (what revisions and compaction store).
func (x *Exec) ServerYSON() (string, error) {
	di, err := x.DocInfo()
	if err != nil {
		return "", err
	}
	d, err := packs.BuildInternalDocForServerSeq(x.ctx, x.R.W.BE, di, di.ServerSeq)
	if err != nil {
		return "", err
	}
	y, err := yson.FromCRDT(d.RootObject())
	if err != nil {
		return "", err
	}
	return y.(yson.Object).Marshal()
}

// Quiesce runs the quiescent closure: every attached replica syncs round-robin
// until two consecutive full rounds change nothing.
func (x *Exec) Quiesce() {
	if x.Aborted {
		return
	}
	maxRounds := len(x.Reps) + 4
	stable := 0
	for round := 0; round < maxRounds; round++ {
		changed := false
		for _, rep := range x.Reps {
			if !rep.Attached {
				continue
			}
			before := rep.Doc.Checkpoint().String() + rep.Doc.Marshal()
			// Progress is a change of state, not "had something to send": a change the
			// server accepts without storing and without acknowledging (a presence-only
			// change sent to a presenceless document by a client that attached with
			// presence) stays pending and is re-sent on every sync without effect.
			localBefore := len(rep.Doc.CreateChangePack().Changes)
			err, panicked := guard(func() error { return x.sync(rep) })
			if panicked {
				x.violate("panic", "panic:quiesce:"+NormErr(firstLine(err.Error())), err.Error())
				x.Aborted = true
				return
			}
			if err != nil {
				x.trace(fmt.Sprintf("Q round %d sync c%d", round, rep.Role), err)
				x.violate("sync-error", "sync-error:"+NormErr(err.Error()),
					fmt.Sprintf("quiescent round %d client %d: %v", round, rep.Role, err))
				rep.SyncErrs++
				// A replica that cannot sync stays as it is; keep going for the others
				// but do not loop forever.
				continue
			}
			x.trace(fmt.Sprintf("Q round %d sync c%d", round, rep.Role), nil)
			after := rep.Doc.Checkpoint().String() + rep.Doc.Marshal()
			if before != after || localBefore != len(rep.Doc.CreateChangePack().Changes) {
				changed = true
			}
		}
		x.Rounds = round + 1
		if !changed {
			stable++
			if stable >= 2 {
				x.Quiesced = true
				return
			}
		} else {
			stable = 0
		}
	}
	x.violate("no-quiescence", "no-quiescence", fmt.Sprintf("not quiescent after %d rounds", maxRounds))
}

// Close releases goroutines of the execution.
func (x *Exec) Close() {
	for _, rep := range x.Reps {
		close(rep.stop)
	}
	if x.cancel != nil {
		x.cancel()
	}
}

// AttachedReps returns attached replicas.
func (x *Exec) AttachedReps() []*Replica {
	var out []*Replica
	for _, r := range x.Reps {
		if r.Attached {
			out = append(out, r)
		}
	}
	return out
}
