package hist

// Scenario fixes participants, alphabet and budgets of one exhaustive search.
type Scenario struct {
	Name string `json:"name"`
	// N clients are attached during setup; Late more exist but attach only
	// through an explicit "at" event.
	N    int `json:"n"`
	Late int `json:"late,omitempty"`
	// Init ops are applied by client 0 (one Update each) before the history.
	Init []string `json:"init,omitempty"`
	// Setup events run after Init and before the all-clients setup sync.
	Setup []Event `json:"setup,omitempty"`
	// Alphabet lists the edit kinds every client may use; PerClient overrides it.
	Alphabet  []string   `json:"alphabet"`
	PerClient [][]string `json:"per_client,omitempty"`
	// K edits, Y syncs, U undo/redo calls, D detach/attach events at most.
	K int `json:"k"`
	Y int `json:"y"`
	U int `json:"u,omitempty"`
	D int `json:"d,omitempty"`
	// MaxPerClient bounds edits per client (0 = K).
	MaxPerClient int `json:"max_per_client,omitempty"`
	// EditCaps / SyncCaps bound the edits / syncs of individual clients
	// (index = client; a missing entry or -1 = no individual bound, 0 = none).
	EditCaps []int `json:"edit_caps,omitempty"`
	SyncCaps []int `json:"sync_caps,omitempty"`
	// Env lists environment event kinds (evict, compact, compactF) with budget E.
	Env []string `json:"env,omitempty"`
	E   int      `json:"e,omitempty"`
	// Deact allows deactivate events (counted in D).
	Deact bool `json:"deact,omitempty"`
	// PushOnly allows push-only syncs (counted in Y).
	PushOnly bool `json:"pushonly,omitempty"`
	// EditsFirst: no edit after the first sync (all edits are pairwise
	// concurrent); MaxSyncPerClient bounds the syncs of one client (0 = Y).
	// Together they give the wide-and-shallow shape used for 4-5 clients: every
	// subset of clients edits once, then every order in which clients sync.
	EditsFirst       bool `json:"edits_first,omitempty"`
	MaxSyncPerClient int  `json:"max_sync_per_client,omitempty"`
	// F failed updates at most ("fu": an updater that edits and then returns an
	// error; the document discards its working copy and re-clones it from the
	// authoritative root before the next use).
	F int `json:"f,omitempty"`
	// InitialPresence attaches with an initial presence value.
	InitialPresence bool   `json:"initial_presence,omitempty"`
	Cfg             Config `json:"cfg"`
}

func capOK(caps []int, c, used int) bool {
	return c >= len(caps) || caps[c] < 0 || used < caps[c]
}

func (sc *Scenario) alphabet(c int) []string {
	if c < len(sc.PerClient) && sc.PerClient[c] != nil {
		return sc.PerClient[c]
	}
	return sc.Alphabet
}

type budget struct {
	k, y, u, d, e, f int
	perClient     []int
	perSync       []int
	lateAttached  []bool
}

// candidates lists the events that may extend a history, in canonical order
// (simplest first: by client, edits before syncs).
func (sc *Scenario) candidates(b *budget) []Event {
	var out []Event
	total := sc.N + sc.Late
	for c := 0; c < total; c++ {
		if b.k < sc.K && (sc.MaxPerClient == 0 || b.perClient[c] < sc.MaxPerClient) && capOK(sc.EditCaps, c, b.perClient[c]) && !(sc.EditsFirst && b.y > 0) {
			for _, op := range sc.alphabet(c) {
				out = append(out, Event{K: "e", C: c, Op: op})
			}
		}
		if b.u < sc.U {
			out = append(out, Event{K: "un", C: c}, Event{K: "re", C: c})
		}
		if b.f < sc.F {
			// a failing updater that first applies one edit of the alphabet (so
			// that it touches what earlier events left) and then returns an error
			for _, op := range sc.alphabet(c) {
				out = append(out, Event{K: "fu", C: c, Op: op})
			}
		}
		if b.y < sc.Y && (sc.MaxSyncPerClient == 0 || b.perSync[c] < sc.MaxSyncPerClient) && capOK(sc.SyncCaps, c, b.perSync[c]) {
			out = append(out, Event{K: "s", C: c})
			if sc.PushOnly {
				out = append(out, Event{K: "po", C: c})
			}
		}
		if b.d < sc.D {
			out = append(out, Event{K: "dt", C: c}, Event{K: "at", C: c})
			if sc.Deact {
				out = append(out, Event{K: "deact", C: c})
			}
		} else if c >= sc.N && sc.D == 0 && !b.lateAttached[c] {
			// a late client may attach exactly once, at any position
			out = append(out, Event{K: "at", C: c})
		}
	}
	if b.e < sc.E {
		for _, k := range sc.Env {
			out = append(out, Event{K: k, C: -1})
		}
	}
	return out
}

func (b *budget) add(sc *Scenario, e Event, sign int) {
	switch e.K {
	case "e":
		b.k += sign
		b.perClient[e.C] += sign
	case "s", "po":
		b.y += sign
		b.perSync[e.C] += sign
	case "un", "re":
		b.u += sign
	case "fu":
		b.f += sign
	case "dt", "at", "deact":
		if sc.D > 0 {
			b.d += sign
		} else if e.K == "at" {
			b.lateAttached[e.C] = sign > 0
		}
	default:
		b.e += sign
	}
}

// rank orders events for the partial-order normal form.
func rank(e Event) (int, int) {
	kind := 0
	if e.IsServer() {
		kind = 1
	}
	return e.C, kind
}

// Independent reports whether two adjacent events commute: they belong to
// different clients and at most one of them talks to the server (a local edit
// touches only its own replica). Environment events (C = -1) act on the server.
func Independent(a, b Event) bool {
	if a.C == b.C {
		return false
	}
	if a.IsServer() && b.IsServer() {
		return false
	}
	return true
}

// outOfOrder reports whether (a, b) adjacent is a non-normal-form pair.
func outOfOrder(a, b Event) bool {
	if !Independent(a, b) {
		return false
	}
	ac, ak := rank(a)
	bc, bk := rank(b)
	if ac != bc {
		return ac > bc
	}
	return ak > bk
}

// Visit is called for every enumerated history; it returns false to cut the
// subtree below it (violation found or last event had no effect).
type Visit func(h []Event) bool

// Stats of one enumeration.
type EnumStats struct {
	Visited int
	PORCut  int
	Pruned  int
}

// Enumerate walks all histories of the scenario depth-first in normal form.
// shardDepth/shard/nshards: subtrees rooted at depth shardDepth are assigned
// round-robin; nodes above are visited by every shard (mine=false tells the
// visitor not to count them unless shard 0).
func Enumerate(sc *Scenario, shardDepth, shard, nshards int, visit func(h []Event, mine bool) bool) EnumStats {
	var st EnumStats
	b := &budget{perClient: make([]int, sc.N+sc.Late), perSync: make([]int, sc.N+sc.Late), lateAttached: make([]bool, sc.N+sc.Late)}
	var h []Event
	subtree := 0
	var rec func(owned bool)
	rec = func(owned bool) {
		for _, e := range sc.candidates(b) {
			if n := len(h); n > 0 && outOfOrder(h[n-1], e) {
				st.PORCut++
				continue
			}
			h = append(h, e)
			b.add(sc, e, +1)
			depth := len(h)
			mine := owned
			if depth == shardDepth {
				mine = subtree%nshards == shard
				subtree++
			}
			if depth < shardDepth {
				// shared shallow node: executed by everyone for pruning, counted by shard 0
				st.Visited++
				if visit(append([]Event(nil), h...), shard == 0) {
					rec(false)
				} else {
					st.Pruned++
				}
			} else if mine {
				st.Visited++
				if visit(append([]Event(nil), h...), true) {
					rec(true)
				} else {
					st.Pruned++
				}
			}
			b.add(sc, e, -1)
			h = h[:len(h)-1]
		}
	}
	rec(shardDepth == 0)
	return st
}

// CountHistories returns the number of normal-form histories without pruning.
func CountHistories(sc *Scenario) int {
	n := 0
	Enumerate(sc, 0, 0, 1, func(h []Event, mine bool) bool { n++; return true })
	return n
}
