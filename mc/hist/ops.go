// Package hist is Engine H: bounded exhaustive exploration of edit/sync
// histories on real replicas and a real in-process server.
package hist

import (
	"fmt"
	"math"
	"sort"
	"unicode/utf16"

	"github.com/yorkie-team/yorkie/pkg/document"
	"github.com/yorkie-team/yorkie/pkg/document/crdt"
	"github.com/yorkie-team/yorkie/pkg/document/json"
)

// Op is one editing call of the public API with arguments computed from the
// visible state, so that it is always legal. v is a value unique within the
// history (the index of the event).
type Op struct {
	Name  string
	Apply func(r *json.Object, p *document.Presence, v int)
}

// Ops is the registry of edit kinds.
var Ops = map[string]*Op{}

func reg(name string, f func(r *json.Object, p *document.Presence, v int)) {
	if _, dup := Ops[name]; dup {
		panic("duplicate op " + name)
	}
	Ops[name] = &Op{Name: name, Apply: f}
}

// Facts are observations the editing calls make about the execution in
// progress (reset at the start of every Run). They let a check name a known
// root cause by what actually happened instead of by the names of the edit
// kinds involved:
//
//	array-set-on-moved-element: Array.Set*(index) was called on an element that,
//	in the caller's own replica, no longer sits in the position slot it was
//	created in (it was moved before).
var Facts = map[string]bool{}

// noteSetTarget records whether the idx-th visible element of a has left its
// original position slot.
func noteSetTarget(a *json.Array, idx int) {
	i := 0
	for _, n := range a.RGANodes() {
		if n.IsRemoved() {
			continue
		}
		if i == idx {
			if el, pos := n.Element(), n.PositionCreatedAt(); el != nil && pos != nil && pos.Key() != el.CreatedAt().Key() {
				Facts["array-set-on-moved-element"] = true
			}
			return
		}
		i++
	}
}

// OpNames returns all op names sorted.
func OpNames() []string {
	var out []string
	for k := range Ops {
		out = append(out, k)
	}
	sort.Strings(out)
	return out
}

func u16len(s string) int { return len(utf16.Encode([]rune(s))) }

func letter(v int) string { return string(rune('A' + (v % 26))) }

func obj(r *json.Object) *json.Object {
	if e := r.Get("o"); e != nil {
		if _, ok := e.(*crdt.Object); ok {
			return r.GetObject("o")
		}
	}
	return nil
}

func arr(r *json.Object) *json.Array {
	if e := r.Get("a"); e != nil {
		if _, ok := e.(*crdt.Array); ok {
			return r.GetArray("a")
		}
	}
	return nil
}

func txt(r *json.Object) *json.Text {
	if e := r.Get("t"); e != nil {
		if _, ok := e.(*crdt.Text); ok {
			return r.GetText("t")
		}
	}
	return nil
}

func cnt(r *json.Object, k string) *json.Counter {
	if e := r.Get(k); e != nil {
		if _, ok := e.(*crdt.Counter); ok {
			return r.GetCounter(k)
		}
	}
	return nil
}

func tree(r *json.Object) *json.Tree {
	if e := r.Get("tr"); e != nil {
		if _, ok := e.(*crdt.Tree); ok {
			return r.GetTree("tr")
		}
	}
	return nil
}

func init() {
	// ---------------------------------------------------------------- init
	// an empty document: {}
	reg("init.none", func(r *json.Object, _ *document.Presence, v int) {})
	reg("init.o", func(r *json.Object, _ *document.Presence, v int) {
		r.SetNewObject("o").SetInteger("k1", 0).SetInteger("k2", 0)
	})
	// an object whose first member is itself an object
	reg("init.oo", func(r *json.Object, _ *document.Presence, v int) {
		o := r.SetNewObject("o")
		o.SetNewObject("k1").SetInteger("x", 0)
		o.SetInteger("k2", 0)
	})
	reg("init.a", func(r *json.Object, _ *document.Presence, v int) {
		r.SetNewArray("a").AddInteger(1, 2, 3)
	})
	reg("init.a0", func(r *json.Object, _ *document.Presence, v int) {
		r.SetNewArray("a")
	})
	reg("init.a2", func(r *json.Object, _ *document.Presence, v int) {
		r.SetNewArray("a").AddInteger(1, 2)
	})
	reg("init.t", func(r *json.Object, _ *document.Presence, v int) {
		r.SetNewText("t").Edit(0, 0, "abcd")
	})
	reg("init.t0", func(r *json.Object, _ *document.Presence, v int) {
		r.SetNewText("t")
	})
	reg("init.c", func(r *json.Object, _ *document.Presence, v int) {
		r.SetNewCounter("c", 0)
		r.SetNewCounter("cl", int64(0))
	})
	reg("init.tr", func(r *json.Object, _ *document.Presence, v int) {
		r.SetNewTree("tr", json.TreeNode{
			Type: "doc",
			Children: []json.TreeNode{
				{Type: "p", Children: []json.TreeNode{{Type: "text", Value: "ab"}}},
				{Type: "p", Children: []json.TreeNode{{Type: "text", Value: "cd"}}},
			},
		})
	})

	// -------------------------------------------------------------- object
	reg("o.set1", func(r *json.Object, _ *document.Presence, v int) {
		if o := obj(r); o != nil {
			o.SetInteger("k1", v)
		}
	})
	reg("o.set2", func(r *json.Object, _ *document.Presence, v int) {
		if o := obj(r); o != nil {
			o.SetInteger("k2", v)
		}
	})
	reg("o.setstr1", func(r *json.Object, _ *document.Presence, v int) {
		if o := obj(r); o != nil {
			o.SetString("k1", fmt.Sprintf("s%d", v))
		}
	})
	reg("o.del1", func(r *json.Object, _ *document.Presence, v int) {
		if o := obj(r); o != nil && o.Has("k1") {
			o.Delete("k1")
		}
	})
	reg("o.del2", func(r *json.Object, _ *document.Presence, v int) {
		if o := obj(r); o != nil && o.Has("k2") {
			o.Delete("k2")
		}
	})
	reg("o.setobj1", func(r *json.Object, _ *document.Presence, v int) {
		if o := obj(r); o != nil {
			o.SetNewObject("k1").SetInteger("x", v)
		}
	})
	reg("o.setin1", func(r *json.Object, _ *document.Presence, v int) {
		if o := obj(r); o != nil {
			if e, ok := o.Get("k1").(*crdt.Object); ok && e != nil {
				o.GetObject("k1").SetInteger("x", v)
			}
		}
	})
	reg("o.setarr1", func(r *json.Object, _ *document.Presence, v int) {
		if o := obj(r); o != nil {
			o.SetNewArray("k1").AddInteger(v)
		}
	})
	reg("o.pushin1", func(r *json.Object, _ *document.Presence, v int) {
		if o := obj(r); o != nil {
			if e, ok := o.Get("k1").(*crdt.Array); ok && e != nil {
				o.GetArray("k1").AddInteger(v)
			}
		}
	})
	reg("o.delroot", func(r *json.Object, _ *document.Presence, v int) {
		if r.Has("o") {
			r.Delete("o")
		}
	})
	reg("o.newroot", func(r *json.Object, _ *document.Presence, v int) {
		r.SetNewObject("o").SetInteger("k1", v)
	})

	// --------------------------------------------------------------- array
	reg("a.push", func(r *json.Object, _ *document.Presence, v int) {
		if a := arr(r); a != nil {
			a.AddInteger(v)
		}
	})
	reg("a.ins0", func(r *json.Object, _ *document.Presence, v int) {
		if a := arr(r); a != nil && a.Len() > 0 {
			a.InsertIntegerAfter(0, v)
		}
	})
	// behind the second element (behind what an a.ins0 of the same client just inserted)
	reg("a.ins1", func(r *json.Object, _ *document.Presence, v int) {
		if a := arr(r); a != nil && a.Len() > 1 {
			a.InsertIntegerAfter(1, v)
		}
	})
	reg("a.insL", func(r *json.Object, _ *document.Presence, v int) {
		if a := arr(r); a != nil && a.Len() > 0 {
			a.InsertIntegerAfter(a.Len()-1, v)
		}
	})
	reg("a.del0", func(r *json.Object, _ *document.Presence, v int) {
		if a := arr(r); a != nil && a.Len() > 0 {
			a.Delete(0)
		}
	})
	reg("a.delL", func(r *json.Object, _ *document.Presence, v int) {
		if a := arr(r); a != nil && a.Len() > 0 {
			a.Delete(a.Len() - 1)
		}
	})
	reg("a.delM", func(r *json.Object, _ *document.Presence, v int) {
		if a := arr(r); a != nil && a.Len() > 0 {
			a.Delete(a.Len() / 2)
		}
	})
	// move first element after the last one
	reg("a.mv0L", func(r *json.Object, _ *document.Presence, v int) {
		if a := arr(r); a != nil && a.Len() > 1 {
			a.MoveAfterByIndex(a.Len()-1, 0)
		}
	})
	// move last element after the first one
	reg("a.mvL0", func(r *json.Object, _ *document.Presence, v int) {
		if a := arr(r); a != nil && a.Len() > 1 {
			a.MoveAfterByIndex(0, a.Len()-1)
		}
	})
	reg("a.mvFrontL", func(r *json.Object, _ *document.Presence, v int) {
		if a := arr(r); a != nil && a.Len() > 1 {
			a.MoveFront(a.Get(a.Len() - 1).CreatedAt())
		}
	})
	// MoveBefore: last element before the first / first element before the last
	reg("a.mvBef0L", func(r *json.Object, _ *document.Presence, v int) {
		if a := arr(r); a != nil && a.Len() > 1 {
			a.MoveBefore(a.Get(0).CreatedAt(), a.Get(a.Len()-1).CreatedAt())
		}
	})
	reg("a.mvBefL0", func(r *json.Object, _ *document.Presence, v int) {
		if a := arr(r); a != nil && a.Len() > 2 {
			a.MoveBefore(a.Get(a.Len()-1).CreatedAt(), a.Get(0).CreatedAt())
		}
	})
	reg("a.mvLast0", func(r *json.Object, _ *document.Presence, v int) {
		if a := arr(r); a != nil && a.Len() > 1 {
			a.MoveLast(a.Get(0).CreatedAt())
		}
	})
	reg("a.set0", func(r *json.Object, _ *document.Presence, v int) {
		if a := arr(r); a != nil && a.Len() > 0 {
			noteSetTarget(a, 0)
			a.SetInteger(0, v)
		}
	})
	reg("a.setL", func(r *json.Object, _ *document.Presence, v int) {
		if a := arr(r); a != nil && a.Len() > 0 {
			noteSetTarget(a, a.Len()-1)
			a.SetInteger(a.Len()-1, v)
		}
	})
	reg("a.pushobj", func(r *json.Object, _ *document.Presence, v int) {
		if a := arr(r); a != nil {
			a.AddNewObject().SetInteger("x", v)
		}
	})
	reg("a.setinL", func(r *json.Object, _ *document.Presence, v int) {
		if a := arr(r); a != nil && a.Len() > 0 {
			if _, ok := a.Get(a.Len() - 1).(*crdt.Object); ok {
				a.GetObject(a.Len()-1).SetInteger("x", v)
			}
		}
	})
	reg("a.delroot", func(r *json.Object, _ *document.Presence, v int) {
		if r.Has("a") {
			r.Delete("a")
		}
	})
	reg("a.newroot", func(r *json.Object, _ *document.Presence, v int) {
		r.SetNewArray("a").AddInteger(v)
	})

	// ---------------------------------------------------------------- text
	tlen := func(t *json.Text) int { return u16len(t.String()) }
	// one position behind the middle (behind what a t.insM of the same client just inserted)
	reg("t.insM1", func(r *json.Object, _ *document.Presence, v int) {
		if t := txt(r); t != nil && tlen(t) > 0 {
			i := min(tlen(t)/2+1, tlen(t))
			t.Edit(i, i, letter(v))
		}
	})
	reg("t.ins0", func(r *json.Object, _ *document.Presence, v int) {
		if t := txt(r); t != nil {
			t.Edit(0, 0, letter(v))
		}
	})
	reg("t.insM", func(r *json.Object, _ *document.Presence, v int) {
		if t := txt(r); t != nil {
			m := tlen(t) / 2
			t.Edit(m, m, letter(v))
		}
	})
	reg("t.insE", func(r *json.Object, _ *document.Presence, v int) {
		if t := txt(r); t != nil {
			n := tlen(t)
			t.Edit(n, n, letter(v))
		}
	})
	reg("t.ins2M", func(r *json.Object, _ *document.Presence, v int) {
		if t := txt(r); t != nil {
			m := tlen(t) / 2
			t.Edit(m, m, letter(v)+letter(v+1))
		}
	})
	reg("t.delF", func(r *json.Object, _ *document.Presence, v int) {
		if t := txt(r); t != nil && tlen(t) > 0 {
			t.Edit(0, min(2, tlen(t)), "")
		}
	})
	reg("t.delM", func(r *json.Object, _ *document.Presence, v int) {
		if t := txt(r); t != nil && tlen(t) > 1 {
			n := tlen(t)
			t.Edit(n/2-(n/2+1)/2, n/2+(n-n/2+1)/2, "")
		}
	})
	reg("t.delB", func(r *json.Object, _ *document.Presence, v int) {
		if t := txt(r); t != nil && tlen(t) > 0 {
			n := tlen(t)
			t.Edit(max(0, n-2), n, "")
		}
	})
	reg("t.del1M", func(r *json.Object, _ *document.Presence, v int) {
		if t := txt(r); t != nil && tlen(t) > 0 {
			m := tlen(t) / 2
			if m == tlen(t) {
				m--
			}
			t.Edit(m, m+1, "")
		}
	})
	reg("t.delAll", func(r *json.Object, _ *document.Presence, v int) {
		if t := txt(r); t != nil && tlen(t) > 0 {
			t.Edit(0, tlen(t), "")
		}
	})
	reg("t.repM", func(r *json.Object, _ *document.Presence, v int) {
		if t := txt(r); t != nil && tlen(t) > 1 {
			n := tlen(t)
			t.Edit(n/2-(n/2+1)/2, n/2+(n-n/2+1)/2, letter(v))
		}
	})
	// content outside the basic plane: one character, two UTF-16 units
	reg("t.insU0", func(r *json.Object, _ *document.Presence, v int) {
		if t := txt(r); t != nil {
			t.Edit(0, 0, "\U0001F600"+letter(v))
		}
	})
	reg("t.insUE", func(r *json.Object, _ *document.Presence, v int) {
		if t := txt(r); t != nil {
			t.Edit(tlen(t), tlen(t), letter(v)+"\U0001F601")
		}
	})
	reg("t.repAllU", func(r *json.Object, _ *document.Presence, v int) {
		if t := txt(r); t != nil {
			t.Edit(0, tlen(t), "\U0001F602"+letter(v)+"\U0001F603")
		}
	})
	reg("t.repAll", func(r *json.Object, _ *document.Presence, v int) {
		if t := txt(r); t != nil {
			t.Edit(0, tlen(t), letter(v))
		}
	})
	reg("t.styF", func(r *json.Object, _ *document.Presence, v int) {
		if t := txt(r); t != nil && tlen(t) > 0 {
			t.Style(0, min(3, tlen(t)), map[string]string{"b": fmt.Sprint(v)})
		}
	})
	// the same attribute value every time (two writers of EQUAL values next to
	// a writer of a different one: last-writer-wins must not depend on values)
	reg("t.styFx", func(r *json.Object, _ *document.Presence, v int) {
		if t := txt(r); t != nil && tlen(t) > 0 {
			t.Style(0, min(3, tlen(t)), map[string]string{"b": "same"})
		}
	})
	reg("t.styB", func(r *json.Object, _ *document.Presence, v int) {
		if t := txt(r); t != nil && tlen(t) > 0 {
			n := tlen(t)
			t.Style(max(0, n-3), n, map[string]string{"b": fmt.Sprint(v)})
		}
	})
	reg("t.styAll2", func(r *json.Object, _ *document.Presence, v int) {
		if t := txt(r); t != nil && tlen(t) > 0 {
			t.Style(0, tlen(t), map[string]string{"i": fmt.Sprint(v)})
		}
	})
	reg("t.insAttrM", func(r *json.Object, _ *document.Presence, v int) {
		if t := txt(r); t != nil {
			m := tlen(t) / 2
			t.Edit(m, m, letter(v), map[string]string{"b": fmt.Sprint(v)})
		}
	})
	reg("t.delroot", func(r *json.Object, _ *document.Presence, v int) {
		if r.Has("t") {
			r.Delete("t")
		}
	})

	// ------------------------------------------------------------- counter
	reg("c.inc1", func(r *json.Object, _ *document.Presence, v int) {
		if c := cnt(r, "c"); c != nil {
			c.Increase(1)
		}
	})
	reg("c.incv", func(r *json.Object, _ *document.Presence, v int) {
		if c := cnt(r, "c"); c != nil {
			c.Increase(v * 10)
		}
	})
	reg("c.dec", func(r *json.Object, _ *document.Presence, v int) {
		if c := cnt(r, "c"); c != nil {
			c.Increase(-3)
		}
	})
	reg("c.incmax", func(r *json.Object, _ *document.Presence, v int) {
		if c := cnt(r, "c"); c != nil {
			c.Increase(math.MaxInt32)
		}
	})
	reg("c.inclong", func(r *json.Object, _ *document.Presence, v int) {
		if c := cnt(r, "c"); c != nil {
			c.Increase(int64(math.MaxInt32) + 5)
		}
	})
	reg("c.incf", func(r *json.Object, _ *document.Presence, v int) {
		if c := cnt(r, "c"); c != nil {
			c.Increase(2.7)
		}
	})
	reg("cl.inc1", func(r *json.Object, _ *document.Presence, v int) {
		if c := cnt(r, "cl"); c != nil {
			c.Increase(int64(1))
		}
	})
	reg("cl.incmax", func(r *json.Object, _ *document.Presence, v int) {
		if c := cnt(r, "cl"); c != nil {
			c.Increase(int64(math.MaxInt64))
		}
	})
	reg("c.reset", func(r *json.Object, _ *document.Presence, v int) {
		r.SetNewCounter("c", v)
	})
	reg("c.delroot", func(r *json.Object, _ *document.Presence, v int) {
		if r.Has("c") {
			r.Delete("c")
		}
	})

	// ------------------------------------------------ several operations, one change
	multi := func(name string, parts ...string) {
		reg(name, func(r *json.Object, p *document.Presence, v int) {
			for i, part := range parts {
				Ops[part].Apply(r, p, v+i)
			}
		})
	}
	multi("m.o1+a", "o.set1", "a.push")
	multi("m.o1+o1", "o.set1", "o.set1")
	multi("m.o1+del1", "o.set1", "o.del1")
	multi("m.o1+o2", "o.set1", "o.set2")
	multi("m.t+c", "t.insM", "c.inc1")
	multi("m.t+t", "t.insM", "t.ins0")
	multi("m.c+c", "c.inc1", "c.incv")
	multi("m.a+a", "a.push", "a.ins0")
	multi("m.a+del", "a.push", "a.del0")
	multi("m.obj+in", "o.setobj1", "o.setin1")

	// ------------------------------------------------------------ presence
	reg("p.set1", func(_ *json.Object, p *document.Presence, v int) {
		p.Set("k1", fmt.Sprint(v))
	})
	reg("p.set2", func(_ *json.Object, p *document.Presence, v int) {
		p.Set("k2", fmt.Sprint(v))
	})
	reg("p.clear", func(_ *json.Object, p *document.Presence, v int) {
		p.Clear()
	})
	reg("p.set1+o.set1", func(r *json.Object, p *document.Presence, v int) {
		p.Set("k1", fmt.Sprint(v))
		if o := obj(r); o != nil {
			o.SetInteger("k1", v)
		}
	})
}
