package hist

import (
	"fmt"

	"github.com/yorkie-team/yorkie/pkg/document"
	"github.com/yorkie-team/yorkie/pkg/document/crdt"
	"github.com/yorkie-team/yorkie/pkg/document/json"
)

// visible children of the tree root (elements only, flat <doc><p>..</p>*</doc>).
func tkids(t *json.Tree) []*crdt.TreeNode {
	return t.Root().Children()
}

func pnode(v int) *json.TreeNode {
	return &json.TreeNode{Type: "p", Children: []json.TreeNode{{Type: "text", Value: letter(v)}}}
}

func init() {
	// Structure-preserving tree edits (C01 domain): text edits inside one
	// element, whole-element insert/delete, style.
	reg("tr.insT0", func(r *json.Object, _ *document.Presence, v int) {
		if t := tree(r); t != nil && len(tkids(t)) > 0 {
			t.EditByPath([]int{0, 0}, []int{0, 0}, &json.TreeNode{Type: "text", Value: letter(v)}, 0)
		}
	})
	reg("tr.insT1", func(r *json.Object, _ *document.Presence, v int) {
		if t := tree(r); t != nil && len(tkids(t)) > 0 && tkids(t)[0].Len() >= 1 {
			t.EditByPath([]int{0, 1}, []int{0, 1}, &json.TreeNode{Type: "text", Value: letter(v)}, 0)
		}
	})
	// after the second character of the first element (behind a character that
	// an earlier tr.insT1 of the same client put there)
	reg("tr.insT2", func(r *json.Object, _ *document.Presence, v int) {
		if t := tree(r); t != nil && len(tkids(t)) > 0 && tkids(t)[0].Len() >= 2 {
			t.EditByPath([]int{0, 2}, []int{0, 2}, &json.TreeNode{Type: "text", Value: letter(v)}, 0)
		}
	})
	reg("tr.insTE", func(r *json.Object, _ *document.Presence, v int) {
		if t := tree(r); t != nil && len(tkids(t)) > 0 {
			k := tkids(t)
			n := len(k) - 1
			l := k[n].Len()
			t.EditByPath([]int{n, l}, []int{n, l}, &json.TreeNode{Type: "text", Value: letter(v)}, 0)
		}
	})
	reg("tr.delT0", func(r *json.Object, _ *document.Presence, v int) {
		if t := tree(r); t != nil && len(tkids(t)) > 0 && tkids(t)[0].Len() >= 1 {
			t.EditByPath([]int{0, 0}, []int{0, 1}, nil, 0)
		}
	})
	reg("tr.delTAll0", func(r *json.Object, _ *document.Presence, v int) {
		if t := tree(r); t != nil && len(tkids(t)) > 0 && tkids(t)[0].Len() >= 1 {
			t.EditByPath([]int{0, 0}, []int{0, tkids(t)[0].Len()}, nil, 0)
		}
	})
	reg("tr.repT0", func(r *json.Object, _ *document.Presence, v int) {
		if t := tree(r); t != nil && len(tkids(t)) > 0 && tkids(t)[0].Len() >= 1 {
			t.EditByPath([]int{0, 0}, []int{0, 1}, &json.TreeNode{Type: "text", Value: letter(v)}, 0)
		}
	})
	reg("tr.insP0", func(r *json.Object, _ *document.Presence, v int) {
		if t := tree(r); t != nil {
			t.EditByPath([]int{0}, []int{0}, pnode(v), 0)
		}
	})
	reg("tr.insP1", func(r *json.Object, _ *document.Presence, v int) {
		if t := tree(r); t != nil && len(tkids(t)) >= 1 {
			t.EditByPath([]int{1}, []int{1}, pnode(v), 0)
		}
	})
	reg("tr.insPE", func(r *json.Object, _ *document.Presence, v int) {
		if t := tree(r); t != nil {
			n := len(tkids(t))
			t.EditByPath([]int{n}, []int{n}, pnode(v), 0)
		}
	})
	// split the first element after its first character (Edit with splitLevel 1):
	// not structure-preserving (C19's domain), used where a snapshot has to carry
	// the link between the two halves
	reg("tr.splitP0", func(r *json.Object, _ *document.Presence, v int) {
		if t := tree(r); t != nil && len(tkids(t)) > 0 && tkids(t)[0].Len() >= 2 {
			t.EditByPath([]int{0, 1}, []int{0, 1}, nil, 1)
		}
	})
	reg("tr.delP0", func(r *json.Object, _ *document.Presence, v int) {
		if t := tree(r); t != nil && len(tkids(t)) > 0 {
			t.EditByPath([]int{0}, []int{1}, nil, 0)
		}
	})
	reg("tr.delPL", func(r *json.Object, _ *document.Presence, v int) {
		if t := tree(r); t != nil && len(tkids(t)) > 0 {
			n := len(tkids(t))
			t.EditByPath([]int{n - 1}, []int{n}, nil, 0)
		}
	})
	reg("tr.repP0", func(r *json.Object, _ *document.Presence, v int) {
		if t := tree(r); t != nil && len(tkids(t)) > 0 {
			t.EditByPath([]int{0}, []int{1}, pnode(v), 0)
		}
	})
	reg("tr.sty0", func(r *json.Object, _ *document.Presence, v int) {
		if t := tree(r); t != nil && len(tkids(t)) > 0 {
			t.StyleByPath([]int{0}, []int{1}, map[string]string{"b": fmt.Sprint(v)})
		}
	})
	reg("tr.sty0x", func(r *json.Object, _ *document.Presence, v int) {
		if t := tree(r); t != nil && len(tkids(t)) > 0 {
			t.StyleByPath([]int{0}, []int{1}, map[string]string{"b": "same"})
		}
	})
	reg("tr.styAll", func(r *json.Object, _ *document.Presence, v int) {
		if t := tree(r); t != nil && len(tkids(t)) > 0 {
			t.StyleByPath([]int{0}, []int{len(tkids(t))}, map[string]string{"i": fmt.Sprint(v)})
		}
	})
	reg("tr.rmsty0", func(r *json.Object, _ *document.Presence, v int) {
		if t := tree(r); t != nil && len(tkids(t)) > 0 {
			t.RemoveStyleByPath([]int{0}, []int{1}, []string{"b"})
		}
	})
	reg("tr.delroot", func(r *json.Object, _ *document.Presence, v int) {
		if r.Has("tr") {
			r.Delete("tr")
		}
	})
}
