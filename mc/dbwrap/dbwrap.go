// Package dbwrap decorates the backend's database.Database (the exported field
// Backend.DB) so that the harness owns every storage call: fault injection for
// C05 and scheduling points for Engine S.
package dbwrap

import "github.com/yorkie-team/yorkie/server/backend/database"

// DB wraps a database. Before runs ahead of every method that returns an
// error; a non-nil result is returned instead of calling the method. After
// runs once the method has taken effect and may replace a nil error.
type DB struct {
	database.Database
	Before func(method string) error
	After  func(method string, err error) error
}

// Wrap decorates db.
func Wrap(db database.Database) *DB { return &DB{Database: db} }
