// Package vsync stands in for the standard "sync" package inside the packages
// of the code under test that the overlay build rewrites (pkg/locker,
// pkg/cmap, ...). Mutex and RWMutex are scheduler-aware: on a goroutine managed
// by the cooperative scheduler (verifmc/sched) every Lock/RLock/TryLock is a
// scheduling point and blocking is decided by the scheduler's model of the
// mutex (Go semantics: a writer that has announced itself blocks readers that
// arrive later), so the real mutex underneath never blocks a managed thread.
// On any other goroutine (set-up code, free-running -race pass) the types
// behave exactly like the standard ones. Everything else is the standard
// library's type under the same name.
package vsync

import (
	"sync"

	"verifmc/sched"
)

type (
	Locker    = sync.Locker
	WaitGroup = sync.WaitGroup
	Once      = sync.Once
	Map       = sync.Map
	Pool      = sync.Pool
	Cond      = sync.Cond
)

func NewCond(l Locker) *Cond                             { return sync.NewCond(l) }
func OnceFunc(f func()) func()                           { return sync.OnceFunc(f) }
func OnceValue[T any](f func() T) func() T               { return sync.OnceValue(f) }
func OnceValues[A, B any](f func() (A, B)) func() (A, B) { return sync.OnceValues(f) }

// Mutex is a scheduler-aware sync.Mutex.
type Mutex struct{ real sync.Mutex }

func (m *Mutex) Lock() {
	if x := sched.Current(); x != nil {
		x.LockOp("lock", x.NameOf(m))
	}
	m.real.Lock()
}

func (m *Mutex) TryLock() bool {
	if x := sched.Current(); x != nil {
		x.LockOp("trylock", x.NameOf(m))
	}
	return m.real.TryLock()
}

func (m *Mutex) Unlock() {
	m.real.Unlock()
	if x := sched.Current(); x != nil {
		x.LockOp("unlock", x.NameOf(m))
	}
}

// RWMutex is a scheduler-aware sync.RWMutex.
type RWMutex struct{ real sync.RWMutex }

func (m *RWMutex) Lock() {
	if x := sched.Current(); x != nil {
		x.LockOp("lock", x.NameOf(m))
	}
	m.real.Lock()
}

func (m *RWMutex) TryLock() bool {
	if x := sched.Current(); x != nil {
		x.LockOp("trylock", x.NameOf(m))
	}
	return m.real.TryLock()
}

func (m *RWMutex) Unlock() {
	m.real.Unlock()
	if x := sched.Current(); x != nil {
		x.LockOp("unlock", x.NameOf(m))
	}
}

func (m *RWMutex) RLock() {
	if x := sched.Current(); x != nil {
		x.LockOp("rlock", x.NameOf(m))
	}
	m.real.RLock()
}

func (m *RWMutex) TryRLock() bool {
	if x := sched.Current(); x != nil {
		x.LockOp("tryrlock", x.NameOf(m))
	}
	return m.real.TryRLock()
}

func (m *RWMutex) RUnlock() {
	m.real.RUnlock()
	if x := sched.Current(); x != nil {
		x.LockOp("runlock", x.NameOf(m))
	}
}

func (m *RWMutex) RLocker() Locker { return (*rlocker)(m) }

type rlocker RWMutex

func (r *rlocker) Lock()   { (*RWMutex)(r).RLock() }
func (r *rlocker) Unlock() { (*RWMutex)(r).RUnlock() }
