package pubsubmc

// C17, concurrent part: Subscribe, Unsubscribe and Publish of the real
// pubsub.PubSub run as threads of the cooperative scheduler (mc/sched), one
// execution per synctest bubble. Scheduling points are the operations of
// pkg/cmap (the verif hook makes every exported map operation a point; an
// operation that runs a callback under its shard lock is ONE point) and thread
// start/end, so every interleaving of the calls' internal steps is explored
// (depth-first, preemption-bounded). Virtual time does not move while threads
// run: the batch publisher flushes only in a "tick" thread (sleep one window,
// then wait until the flush and the readers have settled), i.e. at any position
// between the internal steps of the other calls.

import (
	"context"
	"encoding/json"
	"fmt"
	"os"
	"strings"
	"sync"
	"sync/atomic"
	"testing"
	"testing/synctest"
	"time"

	"github.com/yorkie-team/yorkie/api/types/events"
	"github.com/yorkie-team/yorkie/pkg/cmap"
	yktime "github.com/yorkie-team/yorkie/pkg/document/time"
	"github.com/yorkie-team/yorkie/server/backend/pubsub"
	"github.com/yorkie-team/yorkie/server/logging"

	"verifmc/sched"
)

// A scenario: who is subscribed before the threads start, which publishes are
// already pending in the batch, and the threads' programs (calls separated by
// ';': sub<i> unsub<i> pub<j> tick).
type sScenario struct {
	Name    string   `json:"name"`
	Pre     []int    `json:"pre"`     // subscribers subscribed in the setup
	PrePub  []int    `json:"prepub"`  // publishers that published in the setup (event pending in the batch)
	Threads []string `json:"threads"` // one program per thread
	NSub    int      `json:"nsub"`
}

func c17sScenarios(tier string) []sScenario {
	out := []sScenario{
		{Name: "sub0||unsub1||pub", Pre: []int{1}, Threads: []string{"sub0", "unsub1", "pub0"}, NSub: 2},
		{Name: "unsub0||unsub1||pub", Pre: []int{0, 1}, Threads: []string{"unsub0", "unsub1", "pub0"}, NSub: 2},
		{Name: "sub0||sub1||pub", Threads: []string{"sub0", "sub1", "pub0"}, NSub: 2},
		{Name: "unsub0||sub1||tick(pending)", Pre: []int{0}, PrePub: []int{0}, Threads: []string{"unsub0", "sub1", "tick"}, NSub: 2},
		{Name: "sub0;unsub0||sub1;unsub1", Threads: []string{"sub0;unsub0", "sub1;unsub1"}, NSub: 2},
		{Name: "unsub0||sub1;pub||tick", Pre: []int{0}, Threads: []string{"unsub0", "sub1", "pub0;tick"}, NSub: 2},
		{Name: "unsub0;sub0||unsub1||pub", Pre: []int{0, 1}, Threads: []string{"unsub0;sub0", "unsub1", "pub0"}, NSub: 2},
	}
	if tier == "thorough" {
		out = append(out,
			sScenario{Name: "sub0||sub1||sub2||pub", Threads: []string{"sub0", "sub1", "sub2", "pub0"}, NSub: 3},
			sScenario{Name: "unsub0||unsub1||sub2||pub;tick", Pre: []int{0, 1}, Threads: []string{"unsub0", "unsub1", "sub2", "pub0;tick"}, NSub: 3},
			sScenario{Name: "sub0;unsub0||sub1;unsub1||pub;pub", Threads: []string{"sub0;unsub0", "sub1;unsub1", "pub0;pub1"}, NSub: 2},
		)
	}
	return out
}

type sCase struct {
	Scenario string `json:"scenario"`
	Choices  []int  `json:"choices"`
}

var (
	sHookOnce sync.Once
)

func installCmapHook() {
	sHookOnce.Do(func() {
		cmap.VerifPointFunc = func(op string) func() {
			if x := sched.Current(); x != nil {
				return x.Enter("cmap."+op, "")
			}
			return func() {}
		}
	})
}

// sRun executes one schedule of a scenario in a fresh bubble.
func sRun(t *testing.T, sc *sScenario, prefix []int) (x *sched.Exec, verdict string) {
	// A document nobody watches must not keep a batch publisher (or a reader's
	// channel) alive: goroutines still blocked when the bubble ends make
	// synctest panic ("blocked goroutines remain"); that is the leak verdict.
	defer func() {
		if r := recover(); r != nil {
			verdict = fmt.Sprintf("goroutine leak: %v", r)
		}
	}()
	synctest.Test(t, func(t *testing.T) {
		// everything the threads block on must be created inside the bubble,
		// otherwise waiting for it is not "durably blocked" and virtual time stops
		x = sched.NewExec(prefix)
		x.KeepTrace = true
		ps := pubsub.New()
		ctx := context.Background()
		var clock atomic.Int64 // logical time: one tick per call start / return
		subs := make([]*pubsub.DocSubscription, sc.NSub)
		subRet := make([]int64, sc.NSub)  // stamp at which Subscribe returned (0 = never)
		unsubAt := make([]int64, sc.NSub) // stamp at which Unsubscribe was called (0 = never)
		var mu sync.Mutex
		got := make([][]string, sc.NSub) // actors of the notifications read
		closed := make([]bool, sc.NSub)
		type pubRec struct {
			actor  yktime.ActorID
			called int64
		}
		var pubs []pubRec
		reader := func(i int, s *pubsub.DocSubscription) {
			for ev := range s.Events() {
				mu.Lock()
				got[i] = append(got[i], ev.Actor.String())
				mu.Unlock()
			}
			mu.Lock()
			closed[i] = true
			mu.Unlock()
		}
		subscribe := func(i int) string {
			s, _, err := ps.Subscribe(ctx, actor(i), docKey, 0)
			if err != nil {
				return "Subscribe: " + err.Error()
			}
			subs[i] = s
			unsubAt[i] = 0 // subscribed (again)
			subRet[i] = clock.Add(1)
			go reader(i, s)
			return ""
		}
		unsubscribe := func(i int) {
			if subs[i] == nil {
				return
			}
			unsubAt[i] = clock.Add(1)
			ps.Unsubscribe(ctx, docKey, subs[i])
		}
		publish := func(j int) {
			a := actor(10 + j)
			mu.Lock()
			pubs = append(pubs, pubRec{a, clock.Add(1)})
			mu.Unlock()
			ps.Publish(ctx, a, events.DocEvent{Type: events.DocChanged, Key: docKey, Actor: a})
		}
		// setup (unmanaged, sequential)
		for _, i := range sc.Pre {
			if msg := subscribe(i); msg != "" {
				verdict = msg
				return
			}
		}
		for _, j := range sc.PrePub {
			publish(j)
		}
		synctest.Wait()

		var callErr atomic.Value
		for ti, prog := range sc.Threads {
			prog := prog
			x.Go(fmt.Sprintf("T%d[%s]", ti, prog), func() {
				for _, call := range strings.Split(prog, ";") {
					var n int
					switch {
					case strings.HasPrefix(call, "sub"):
						fmt.Sscanf(call, "sub%d", &n)
						if msg := subscribe(n); msg != "" {
							callErr.Store(msg)
						}
					case strings.HasPrefix(call, "unsub"):
						fmt.Sscanf(call, "unsub%d", &n)
						unsubscribe(n)
					case strings.HasPrefix(call, "pub"):
						fmt.Sscanf(call, "pub%d", &n)
						publish(n)
					case call == "tick":
						time.Sleep(window)
						synctest.Wait() // the flush and the readers have settled
					}
				}
			})
		}
		x.Run()
		if x.Aborted != "" || x.Deadlock != "" {
			return
		}
		for _, th := range x.Threads() {
			if th.Err != nil {
				verdict = fmt.Sprintf("panic in %s: %v", th.Name, th.Err)
				return
			}
		}
		if v := callErr.Load(); v != nil {
			verdict = v.(string)
			return
		}
		// horizon: three windows
		for k := 0; k < 6; k++ {
			time.Sleep(window / 2)
			synctest.Wait()
		}
		mu.Lock()
		// delivery: a watcher whose Subscribe returned before the Publish was
		// called and that has not asked to leave is told
		for _, p := range pubs {
			for i := 0; i < sc.NSub; i++ {
				if subRet[i] == 0 || subRet[i] > p.called || unsubAt[i] != 0 {
					continue
				}
				ok := closed[i]
				for _, a := range got[i] {
					if a == p.actor.String() {
						ok = true
					}
				}
				if !ok {
					verdict = fmt.Sprintf("subscriber %d (Subscribe returned at step %d, still subscribed) was not told about the publish called at step %d; read %v", i, subRet[i], p.called, got[i])
				}
			}
		}
		mu.Unlock()
		if verdict != "" {
			return
		}
		// everybody leaves; nothing may be left behind
		for i := 0; i < sc.NSub; i++ {
			if subs[i] != nil && unsubAt[i] == 0 {
				unsubscribe(i)
			}
		}
		for k := 0; k < 4; k++ {
			time.Sleep(window)
			synctest.Wait()
		}
		if ids := ps.ClientIDs(docKey); len(ids) != 0 {
			verdict = fmt.Sprintf("ClientIDs not empty after everybody unsubscribed: %d", len(ids))
			return
		}
		mu.Lock()
		for i := 0; i < sc.NSub; i++ {
			if subs[i] != nil && !closed[i] {
				verdict = fmt.Sprintf("subscriber %d: channel still open after Unsubscribe", i)
			}
		}
		mu.Unlock()
		// a document nobody watches must not keep a batch publisher alive: if one
		// is left, its goroutine is still blocked when the bubble ends and
		// synctest reports a deadlock (the launcher names this case from -cur)
	})
	return x, verdict
}

func TestC17S(t *testing.T) {
	_ = logging.SetLogLevel("fatal")
	installCmapHook()
	res := &result{Outcomes: map[string]int{}, Counters: map[string]int{}}
	deadline := time.Now().Add(time.Duration(*flagBudget * float64(time.Second)))
	scs := c17sScenarios(*flagTier)
	if *flagCase != "" {
		var c sCase
		if err := json.Unmarshal([]byte(*flagCase), &c); err != nil {
			t.Fatal(err)
		}
		for i := range scs {
			if scs[i].Name == c.Scenario {
				x, verdict := sRun(t, &scs[i], c.Choices)
				if x != nil && x.Deadlock != "" {
					verdict = "deadlock: " + x.Deadlock
				}
				if verdict != "" {
					res.Found = append(res.Found, found{Kind: "watch-concurrent", Detail: verdict})
				}
			}
		}
		writeResult(res)
		return
	}
	bound := 3
	if *flagTier == "thorough" {
		bound = 99 // unbounded: every interleaving of the scheduling points
	}
	for si := range scs {
		if si%*flagShards != *flagShard {
			continue
		}
		sc := &scs[si]
		name := fmt.Sprintf("c17s/%s/bound%d", sc.Name, bound)
		timedOut := false
		execs, complete := sched.ExploreFn(bound, 0, func(prefix []int) (*sched.Exec, string) {
			if time.Now().After(deadline) {
				return nil, "" // internal deadline: stop, report the scenario as incomplete
			}
			if *flagCur != "" {
				raw, _ := json.Marshal(sCase{Scenario: sc.Name, Choices: prefix})
				_ = writeFile(*flagCur, raw)
			}
			x, verdict := sRun(t, sc, prefix)
			res.Evaluations++
			pre := 0
			for _, p := range x.Points {
				if p.Chosen != 0 && p.Running >= 0 && len(p.Enabled) > 0 && p.Enabled[0] == p.Running {
					pre++
				}
			}
			if pre > 0 {
				res.Nontrivial++
			}
			res.Outcomes[fmt.Sprintf("%s|points=%d|%s", sc.Name, len(x.Points), firstWords(verdict))]++
			if len(res.Samples) < 3 && pre >= 2 && res.Evaluations%37 == 0 {
				res.Samples = append(res.Samples, map[string]any{"scenario": sc.Name, "schedule": x.Trace, "preemptions": pre})
			}
			return x, verdict
		}, func(choices []int, msg string) bool {
			raw, _ := json.Marshal(sCase{Scenario: sc.Name, Choices: choices})
			res.Found = append(res.Found, found{Kind: "watch-concurrent", Detail: sc.Name + ": " + msg, Case: string(raw),
				Core: "watch-concurrent|" + sc.Name + "|" + normalise(msg)})
			if time.Now().After(deadline) {
				timedOut = true
				return false
			}
			return len(res.Found) < 20
		})
		_ = execs
		if time.Now().After(deadline) {
			timedOut = true
		}
		if !complete || timedOut {
			res.Incomplete = append(res.Incomplete, name)
		} else {
			res.Completed = append(res.Completed, name)
		}
	}
	writeResult(res)
}

func writeFile(p string, b []byte) error { return os.WriteFile(p, b, 0o644) }

func firstWords(s string) string {
	if s == "" {
		return "ok"
	}
	f := strings.Fields(s)
	if len(f) > 4 {
		f = f[:4]
	}
	return strings.Join(f, " ")
}
