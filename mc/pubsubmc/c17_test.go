// Package pubsubmc explores the real pubsub.PubSub exhaustively inside
// testing/synctest bubbles (virtual time, deterministic settling of the batch
// publisher goroutine and its timers). It is compiled as a test binary because
// synctest needs a *testing.T; the vcheck driver runs it and reads its result.
package pubsubmc

import (
	"context"
	"encoding/json"
	"flag"
	"fmt"
	"os"
	"strings"
	"testing"
	"testing/synctest"
	"time"

	"github.com/yorkie-team/yorkie/api/types"
	"github.com/yorkie-team/yorkie/api/types/events"
	yktime "github.com/yorkie-team/yorkie/pkg/document/time"
	"github.com/yorkie-team/yorkie/server/backend/pubsub"
	"github.com/yorkie-team/yorkie/server/logging"
)

var (
	flagTier   = flag.String("tier", "quick", "quick|thorough")
	flagOut    = flag.String("out", "", "result file")
	flagCase   = flag.String("case", "", "replay one case (space separated events)")
	flagShard  = flag.Int("shard", 0, "")
	flagShards = flag.Int("shards", 1, "")
	flagBudget = flag.Float64("budget", 120, "seconds")
)

// Events: sub<i> unsub<i> pub<j> tick (window) wait (publish timeout); a
// trailing '!' on sub marks a stalled consumer (never reads until the end).

type result struct {
	Evaluations int            `json:"evaluations"`
	Nontrivial  int            `json:"nontrivial"`
	Outcomes    map[string]int `json:"outcomes"`
	Counters    map[string]int `json:"counters"`
	Samples     []any          `json:"samples"`
	Found       []found        `json:"found"`
	Incomplete  []string       `json:"incomplete"`
	Completed   []string       `json:"completed"`
}

type found struct {
	Kind   string `json:"kind"`
	Detail string `json:"detail"`
	Case   string `json:"case"`
	Core   string `json:"core"`
}

func actor(i int) yktime.ActorID {
	a, _ := yktime.ActorIDFromHex(fmt.Sprintf("%024x", i+1))
	return a
}

var docKey = types.DocRefKey{ProjectID: "000000000000000000000001", DocID: "000000000000000000000002"}

const window = 100 * time.Millisecond
const publishTimeout = 100 * time.Millisecond

// runCase executes one event sequence in a fresh bubble and returns a
// disagreement with the oracle ("" = fine) and an outcome key.
func runCase(t *testing.T, seq []string, nsub int, stalled map[int]bool) (diff string, outcome string) {
	synctest.Test(t, func(t *testing.T) {
		ps := pubsub.New()
		ctx := context.Background()
		subs := make([]*pubsub.DocSubscription, nsub)
		// received[i]: events read by subscriber i with the position at which they were read
		type rcv struct {
			pos   int
			actor string
		}
		received := make([][]rcv, nsub)
		closedAt := make([]int, nsub) // position at which the consumer saw its channel closed (-1 never)
		subPos := make([]int, nsub)
		unsubPos := make([]int, nsub)
		for i := range closedAt {
			closedAt[i], subPos[i], unsubPos[i] = -1, -1, -1
		}
		type pubRec struct {
			pos, actor int
			at         time.Time
		}
		unsubAt := make([]time.Time, nsub)
		var pubs []pubRec
		drain := func(i, pos int) {
			if subs[i] == nil {
				return
			}
			for {
				select {
				case ev, ok := <-subs[i].Events():
					if !ok {
						if closedAt[i] < 0 {
							closedAt[i] = pos
						}
						return
					}
					received[i] = append(received[i], rcv{pos, ev.Actor.String()})
				default:
					return
				}
			}
		}
		settle := func(pos int) {
			synctest.Wait()
			for i := 0; i < nsub; i++ {
				if !stalled[i] {
					drain(i, pos)
				}
			}
			synctest.Wait()
		}
		var panicMsg string
		func() {
			defer func() {
				if r := recover(); r != nil {
					panicMsg = fmt.Sprint(r)
				}
			}()
			for pos, ev := range seq {
				switch {
				case strings.HasPrefix(ev, "sub"):
					var i int
					fmt.Sscanf(ev, "sub%d", &i)
					s, _, err := ps.Subscribe(ctx, actor(i), docKey, 0)
					if err != nil {
						diff = "Subscribe: " + err.Error()
						return
					}
					subs[i] = s
					subPos[i] = pos
				case strings.HasPrefix(ev, "unsub"):
					var i int
					fmt.Sscanf(ev, "unsub%d", &i)
					if subs[i] != nil {
						if !stalled[i] {
							drain(i, pos)
						} else {
							// The batch publisher holds the subscription's mutex while it waits
							// (publishTimeout) for a stalled consumer; Unsubscribe then waits for
							// that mutex. A goroutine waiting for a mutex is not "durably blocked"
							// for synctest, so virtual time could not advance: let the pending
							// timed sends to this consumer run out first (real time would do the same).
							for k := 0; k < 2*(len(pubs)+1); k++ {
								time.Sleep(publishTimeout)
								synctest.Wait()
							}
						}
						unsubAt[i] = time.Now()
						ps.Unsubscribe(ctx, docKey, subs[i])
						unsubPos[i] = pos
					}
				case strings.HasPrefix(ev, "pub"):
					var j int
					fmt.Sscanf(ev, "pub%d", &j)
					ps.Publish(ctx, actor(10+j), events.DocEvent{Type: events.DocChanged, Key: docKey, Actor: actor(10 + j)})
					pubs = append(pubs, pubRec{pos, 10 + j, time.Now()})
				case ev == "tick":
					time.Sleep(window)
				case ev == "wait":
					time.Sleep(publishTimeout)
				}
				settle(pos)
			}
			// horizon: enough virtual time for every pending batch and every timeout
			end := len(seq)
			for k := 0; k < 8; k++ {
				time.Sleep(window + publishTimeout)
				settle(end + k)
			}
			// stalled consumers finally look at their channel
			for i := 0; i < nsub; i++ {
				if stalled[i] {
					drain(i, end+100)
				}
			}
			// everybody leaves
			for i := 0; i < nsub; i++ {
				if subs[i] != nil && unsubPos[i] < 0 {
					for k := 0; k < 2*(len(pubs)+1); k++ {
						time.Sleep(publishTimeout)
						synctest.Wait()
					}
					unsubAt[i] = time.Now()
					ps.Unsubscribe(ctx, docKey, subs[i])
					unsubPos[i] = end + 200
				}
			}
			for k := 0; k < 3; k++ {
				time.Sleep(window + publishTimeout)
				synctest.Wait()
			}
		}()
		if panicMsg != "" {
			diff = "panic: " + panicMsg
			return
		}
		if diff != "" {
			return
		}
		// oracle 1: a subscriber whose Subscribe returned before the Publish was
		// called and whose Unsubscribe started after it returned is told (an event
		// of that actor read at or after the publish) or sees its channel closed
		delivered := 0
		for _, p := range pubs {
			for i := 0; i < nsub; i++ {
				if subPos[i] < 0 || !(subPos[i] < p.pos && p.pos < unsubPos[i]) {
					continue
				}
				// "within bounded time": the batch window plus one publish timeout per
				// (subscriber, pending event) that may be stalled ahead of this one
				bound := window + time.Duration(2*nsub*(len(pubs)+1))*publishTimeout
				if unsubAt[i].Sub(p.at) < bound {
					continue // the subscriber left before the bound elapsed
				}
				ok := false
				for _, r := range received[i] {
					if r.actor == actor(p.actor).String() && r.pos >= p.pos {
						ok = true
					}
					// A consumer that does not read keeps at most one notification (buffer
					// of 1) and later ones time out. Notifications are triggers ("the
					// document changed, sync"): whichever one it finally reads makes it
					// fetch every change, so for a stalled consumer any notification read
					// after the publish counts.
					if stalled[i] && r.pos >= p.pos {
						ok = true
					}
				}
				if closedAt[i] >= 0 && closedAt[i] < unsubPos[i] {
					ok = true // the stream was closed by the server: the watcher re-establishes it
				}
				if !ok {
					diff = fmt.Sprintf("subscriber %d (subscribed at %d, unsubscribed at %d, stalled=%v) was not told about publish at %d by actor %d; received %v closedAt %d",
						i, subPos[i], unsubPos[i], stalled[i], p.pos, p.actor, received[i], closedAt[i])
					return
				}
				delivered++
			}
		}
		// oracle 2: nothing new arrives after Unsubscribe returned
		for i := 0; i < nsub; i++ {
			if subs[i] == nil {
				continue
			}
			for {
				ev, ok := <-subs[i].Events()
				if !ok {
					break
				}
				// an event still buffered was sent before the close; it must stem from a publish before the unsubscribe
				before := false
				for _, p := range pubs {
					if actor(p.actor).String() == ev.Actor.String() && p.pos < unsubPos[i] {
						before = true
					}
				}
				if !before {
					diff = fmt.Sprintf("subscriber %d read an event of actor %s after it unsubscribed", i, ev.Actor)
					return
				}
			}
		}
		// oracle 3: nothing leaks
		if ids := ps.ClientIDs(docKey); len(ids) != 0 {
			diff = fmt.Sprintf("ClientIDs not empty after everybody unsubscribed: %d", len(ids))
			return
		}
		// Goroutines left blocked in the bubble when it ends make synctest.Test
		// panic ("blocked goroutines remain"): the launcher reports that as a leak.
		outcome = fmt.Sprintf("delivered=%d closed=%v", delivered, closedAt)
	})
	return diff, outcome
}

// sequences enumerates every interleaving of the subscribers' [sub,unsub]
// programs, the publishers' [pub] programs and up to maxEnv environment events.
func sequences(nsub, npub, maxEnv int, yield func(seq []string) bool) {
	type prog struct {
		evs []string
		pc  int
	}
	var progs []*prog
	for i := 0; i < nsub; i++ {
		progs = append(progs, &prog{evs: []string{fmt.Sprintf("sub%d", i), fmt.Sprintf("unsub%d", i)}})
	}
	for j := 0; j < npub; j++ {
		progs = append(progs, &prog{evs: []string{fmt.Sprintf("pub%d", j)}})
	}
	var seq []string
	env := 0
	var rec func() bool
	rec = func() bool {
		done := true
		for _, p := range progs {
			if p.pc < len(p.evs) {
				done = false
			}
		}
		if done {
			return yield(append([]string(nil), seq...))
		}
		for pi, p := range progs {
			if p.pc >= len(p.evs) {
				continue
			}
			// symmetry: identical publishers fire in index order
			if pi >= nsub && pi > nsub && progs[pi-1].pc == 0 {
				continue
			}
			seq = append(seq, p.evs[p.pc])
			p.pc++
			ok := rec()
			p.pc--
			seq = seq[:len(seq)-1]
			if !ok {
				return false
			}
		}
		if env < maxEnv && len(seq) > 0 {
			for _, e := range []string{"tick", "wait"} {
				if e == "wait" && seq[len(seq)-1] == "tick" {
					continue // tick;wait == wait;tick in effect (both advance the clock): keep one order
				}
				seq = append(seq, e)
				env++
				ok := rec()
				env--
				seq = seq[:len(seq)-1]
				if !ok {
					return false
				}
			}
		}
		return true
	}
	rec()
}

func TestC17(t *testing.T) {
	_ = logging.SetLogLevel("fatal")
	prev := pubsub.SetDefaultMaxConsecutivePublishFailures(2)
	defer pubsub.SetDefaultMaxConsecutivePublishFailures(prev)
	res := &result{Outcomes: map[string]int{}, Counters: map[string]int{}}
	deadline := time.Now().Add(time.Duration(*flagBudget * float64(time.Second)))
	if *flagCase != "" {
		var c struct {
			Seq     []string `json:"seq"`
			NSub    int      `json:"nsub"`
			Stalled []int    `json:"stalled"`
		}
		if err := json.Unmarshal([]byte(*flagCase), &c); err != nil {
			t.Fatal(err)
		}
		st := map[int]bool{}
		for _, i := range c.Stalled {
			st[i] = true
		}
		diff, _ := runCase(t, c.Seq, c.NSub, st)
		if diff != "" {
			res.Found = append(res.Found, found{Kind: "watch", Detail: diff})
		}
		writeResult(res)
		return
	}
	type cfg struct{ nsub, npub, env int }
	cfgs := []cfg{{1, 1, 2}, {2, 1, 2}, {1, 2, 2}, {2, 2, 1}}
	if *flagTier == "thorough" {
		cfgs = []cfg{{1, 1, 3}, {2, 1, 3}, {1, 2, 3}, {2, 2, 2}, {3, 1, 2}, {3, 2, 1}, {2, 3, 1}}
	}
	job := 0
	for _, c := range cfgs {
		name := fmt.Sprintf("subs%d/pubs%d/env<=%d", c.nsub, c.npub, c.env)
		// which subscribers are stalled consumers: every subset
		incomplete := false
		for mask := 0; mask < 1<<c.nsub && !incomplete; mask++ {
			stalled := map[int]bool{}
			var sl []int
			for i := 0; i < c.nsub; i++ {
				if mask&(1<<i) != 0 {
					stalled[i] = true
					sl = append(sl, i)
				}
			}
			sequences(c.nsub, c.npub, c.env, func(seq []string) bool {
				job++
				if job%*flagShards != *flagShard {
					return true
				}
				if time.Now().After(deadline) {
					incomplete = true
					return false
				}
				diff, outcome := runCase(t, seq, c.nsub, stalled)
				res.Evaluations++
				if c.nsub+c.npub >= 3 {
					res.Nontrivial++
				}
				res.Outcomes[outcome]++
				if diff != "" {
					raw, _ := json.Marshal(map[string]any{"seq": seq, "nsub": c.nsub, "stalled": sl})
					res.Found = append(res.Found, found{Kind: "watch", Detail: diff + "\nsequence: " + strings.Join(seq, " "), Case: string(raw),
						Core: "watch|" + normalise(diff)})
					if len(res.Found) > 50 {
						return false
					}
				} else if len(res.Samples) < 3 && job%401 == 0 {
					res.Samples = append(res.Samples, map[string]any{"sequence": strings.Join(seq, " "), "stalled_consumers": sl, "outcome": outcome})
				}
				return true
			})
		}
		if incomplete {
			res.Incomplete = append(res.Incomplete, "c17/"+name)
		} else if *flagShard == 0 {
			res.Completed = append(res.Completed, "c17/"+name)
		}
	}
	writeResult(res)
}

func normalise(s string) string {
	// keep the kind of disagreement, drop positions
	if i := strings.Index(s, "("); i > 0 && strings.HasPrefix(s, "subscriber") {
		s = "subscriber" + s[strings.Index(s, ")")+1:]
	}
	var sb strings.Builder
	for _, c := range s {
		if c >= '0' && c <= '9' {
			continue
		}
		sb.WriteRune(c)
	}
	out := sb.String()
	if i := strings.Index(out, "; received"); i > 0 {
		out = out[:i]
	}
	if len(out) > 120 {
		out = out[:120]
	}
	return out
}

func writeResult(res *result) {
	if *flagOut == "" {
		b, _ := json.MarshalIndent(res, "", " ")
		fmt.Println(string(b))
		return
	}
	b, _ := json.Marshal(res)
	_ = os.WriteFile(*flagOut, b, 0o644)
}
