// Package pubsubmc explores the real pubsub.PubSub exhaustively inside
// testing/synctest bubbles (virtual time, deterministic settling of the batch
// publisher goroutine and its timers). It is compiled as a test binary because
// synctest needs a *testing.T; the vcheck driver runs it and reads its result.
package pubsubmc

import (
	"context"
	"encoding/json"
	"flag"
	"fmt"
	"os"
	"strings"
	"sync"
	"sync/atomic"
	"testing"
	"testing/synctest"
	"time"

	"github.com/yorkie-team/yorkie/api/types"
	"github.com/yorkie-team/yorkie/api/types/events"
	yktime "github.com/yorkie-team/yorkie/pkg/document/time"
	"github.com/yorkie-team/yorkie/server/backend/pubsub"
	"github.com/yorkie-team/yorkie/server/logging"
)

var (
	flagTier   = flag.String("tier", "quick", "quick|thorough")
	flagOut    = flag.String("out", "", "result file")
	flagCase   = flag.String("case", "", "replay one case (space separated events)")
	flagShard  = flag.Int("shard", 0, "")
	flagShards = flag.Int("shards", 1, "")
	flagBudget = flag.Float64("budget", 120, "seconds")
	flagCur    = flag.String("cur", "", "file that receives the case being executed (crash attribution)")
)

// Events: sub<i> unsub<i> pub<j> tick (advance one batch window) half (advance
// half a window, so that publishes fall at different offsets to the ticker).
// Each subscriber has a mode: 'r' reads its channel promptly (a goroutine, like
// the watch stream handler), 's' is a stalled consumer (never reads until the
// end); and either leaves inside the sequence (program [sub, unsub]) or stays
// until the horizon has passed (program [sub]).

type result struct {
	Evaluations int            `json:"evaluations"`
	Nontrivial  int            `json:"nontrivial"`
	Outcomes    map[string]int `json:"outcomes"`
	Counters    map[string]int `json:"counters"`
	Samples     []any          `json:"samples"`
	Found       []found        `json:"found"`
	Incomplete  []string       `json:"incomplete"`
	Completed   []string       `json:"completed"`
}

type found struct {
	Kind   string `json:"kind"`
	Detail string `json:"detail"`
	Case   string `json:"case"`
	Core   string `json:"core"`
}

func actor(i int) yktime.ActorID {
	a, _ := yktime.ActorIDFromHex(fmt.Sprintf("%024x", i+1))
	return a
}

var docKey = types.DocRefKey{ProjectID: "000000000000000000000001", DocID: "000000000000000000000002"}

const window = 100 * time.Millisecond
const publishTimeout = 100 * time.Millisecond
const maxFailures = 2

// caseSpec is one execution: the event sequence plus the subscribers' modes.
type caseSpec struct {
	Seq     []string `json:"seq"`
	NSub    int      `json:"nsub"`
	Stalled []int    `json:"stalled"`
	// Self: publisher 0 publishes under subscriber 0's actor id (a watcher that
	// also edits); its own notifications are filtered and not required.
	Self bool `json:"self"`
}

func (c caseSpec) stalled(i int) bool {
	for _, j := range c.Stalled {
		if i == j {
			return true
		}
	}
	return false
}

// runCase executes one case in a fresh bubble and returns a disagreement with
// the oracle ("" = fine) and an outcome key.
func runCase(t *testing.T, c caseSpec) (diff string, outcome string) {
	seq, nsub := c.Seq, c.NSub
	nStalled := len(c.Stalled)
	// Every notification accepted after a watcher subscribed reaches a reading
	// watcher within: the rest of the current window, one more window when the
	// flush loop was busy and skipped a tick, and the time the flush loop can
	// spend on stalled consumers (each costs at most maxFailures timeouts before
	// it is closed, over its whole life).
	bound := 3*window + time.Duration(nStalled*maxFailures)*publishTimeout
	synctest.Test(t, func(t *testing.T) {
		ps := pubsub.New()
		ctx := context.Background()
		subs := make([]*pubsub.DocSubscription, nsub)
		type rcv struct {
			pos   int
			at    time.Time
			actor string
		}
		var mu sync.Mutex
		received := make([][]rcv, nsub)
		closedAt := make([]time.Time, nsub) // when the consumer saw its channel closed
		closedSeen := make([]bool, nsub)
		var curPos atomic.Int64
		subPos := make([]int, nsub)
		unsubPos := make([]int, nsub)
		unsubAt := make([]time.Time, nsub) // when Unsubscribe was called
		for i := range subPos {
			subPos[i], unsubPos[i] = -1, -1
		}
		type pubRec struct {
			pos   int
			actor yktime.ActorID
			at    time.Time
		}
		var pubs []pubRec
		reader := func(i int) {
			for ev := range subs[i].Events() {
				mu.Lock()
				received[i] = append(received[i], rcv{int(curPos.Load()), time.Now(), ev.Actor.String()})
				mu.Unlock()
			}
			mu.Lock()
			closedAt[i], closedSeen[i] = time.Now(), true
			mu.Unlock()
		}
		drainStalled := func(i int) {
			for {
				select {
				case ev, ok := <-subs[i].Events():
					if !ok {
						mu.Lock()
						if !closedSeen[i] {
							closedAt[i], closedSeen[i] = time.Now(), true
						}
						mu.Unlock()
						return
					}
					mu.Lock()
					received[i] = append(received[i], rcv{int(curPos.Load()), time.Now(), ev.Actor.String()})
					mu.Unlock()
				default:
					return
				}
			}
		}
		// The batch publisher holds a subscription's mutex while it waits
		// (publishTimeout) for a stalled consumer; Unsubscribe then waits for that
		// mutex. A goroutine waiting for a mutex is not "durably blocked" for
		// synctest, so virtual time could not advance and the bubble would hang
		// (real time would simply pass): let the timed sends that can still be
		// pending run out before a stalled consumer is unsubscribed.
		letTimedSendsRunOut := func() {
			for k := 0; k < nStalled*maxFailures+3; k++ {
				time.Sleep(publishTimeout)
				synctest.Wait()
			}
		}
		unsubscribe := func(i, pos int) {
			if c.stalled(i) {
				letTimedSendsRunOut()
			}
			unsubAt[i] = time.Now()
			ps.Unsubscribe(ctx, docKey, subs[i])
			unsubPos[i] = pos
		}
		pubActor := func(j int) yktime.ActorID {
			if c.Self && j == 0 {
				return actor(0)
			}
			return actor(10 + j)
		}
		var panicMsg string
		func() {
			defer func() {
				if r := recover(); r != nil {
					panicMsg = fmt.Sprint(r)
				}
			}()
			for pos, ev := range seq {
				curPos.Store(int64(pos))
				switch {
				case strings.HasPrefix(ev, "sub"):
					var i int
					fmt.Sscanf(ev, "sub%d", &i)
					s, _, err := ps.Subscribe(ctx, actor(i), docKey, 0)
					if err != nil {
						diff = "Subscribe: " + err.Error()
						return
					}
					subs[i] = s
					subPos[i] = pos
					if !c.stalled(i) {
						go reader(i)
					}
				case strings.HasPrefix(ev, "unsub"):
					var i int
					fmt.Sscanf(ev, "unsub%d", &i)
					if subs[i] != nil {
						unsubscribe(i, pos)
					}
				case strings.HasPrefix(ev, "pub"):
					var j int
					fmt.Sscanf(ev, "pub%d", &j)
					a := pubActor(j)
					ps.Publish(ctx, a, events.DocEvent{Type: events.DocChanged, Key: docKey, Actor: a})
					pubs = append(pubs, pubRec{pos, a, time.Now()})
				case ev == "tick":
					time.Sleep(window)
				case ev == "half":
					time.Sleep(window / 2)
				}
				synctest.Wait()
			}
			// horizon: every delivery bound has passed
			end := len(seq)
			curPos.Store(int64(end))
			for el := time.Duration(0); el <= bound+window; el += window / 2 {
				time.Sleep(window / 2)
				synctest.Wait()
			}
			// stalled consumers finally look at their channel
			curPos.Store(int64(end + 100))
			for i := 0; i < nsub; i++ {
				if subs[i] != nil && c.stalled(i) && unsubPos[i] < 0 {
					drainStalled(i)
				}
			}
			// everybody who stayed leaves
			for i := 0; i < nsub; i++ {
				if subs[i] != nil && unsubPos[i] < 0 {
					unsubscribe(i, end+200)
				}
			}
			for k := 0; k < 3; k++ {
				time.Sleep(window + publishTimeout)
				synctest.Wait()
			}
			// what a stalled consumer that left early still finds in its closed channel
			for i := 0; i < nsub; i++ {
				if subs[i] != nil && c.stalled(i) {
					for ev := range subs[i].Events() {
						received[i] = append(received[i], rcv{unsubPos[i], unsubAt[i], ev.Actor.String()})
					}
				}
			}
			synctest.Wait()
		}()
		if panicMsg != "" {
			diff = "panic: " + panicMsg
			return
		}
		if diff != "" {
			return
		}
		mu.Lock()
		defer mu.Unlock()
		// oracle 1: a watcher whose Subscribe returned before the Publish was
		// called and that stays for at least the bound afterwards reads a
		// notification of that actor within the bound - or its stream is closed
		// by the server (it then re-establishes the watch and syncs). A stalled
		// consumer keeps at most one notification (buffer of 1); notifications are
		// triggers ("the document changed, sync"), so whichever one it finally
		// reads after the publish counts.
		delivered, required := 0, 0
		for _, p := range pubs {
			for i := 0; i < nsub; i++ {
				if subPos[i] < 0 || subPos[i] > p.pos {
					continue
				}
				if actor(i).Compare(p.actor) == 0 {
					continue // its own change
				}
				deadline := p.at.Add(bound)
				if unsubAt[i].Before(deadline) {
					continue // left before the bound elapsed
				}
				required++
				ok := false
				for _, r := range received[i] {
					if c.stalled(i) {
						if r.pos >= p.pos {
							ok = true
						}
					} else if r.actor == p.actor.String() && !r.at.Before(p.at) && !r.at.After(deadline) {
						ok = true
					}
				}
				if closedSeen[i] && closedAt[i].Before(unsubAt[i]) {
					ok = true
				}
				if !ok {
					diff = fmt.Sprintf("subscriber %d (subscribed at %d, unsubscribed at %d, stalled=%v) was not told within %v about publish at %d by actor %s; received %v",
						i, subPos[i], unsubPos[i], c.stalled(i), bound, p.pos, p.actor, received[i])
					return
				}
				delivered++
			}
		}
		// oracle 2: whatever a subscriber reads stems from a publish made before it
		// unsubscribed (a batch flushed just after Subscribe may carry a slightly
		// older notification: the property does not forbid that)
		for i := 0; i < nsub; i++ {
			for _, r := range received[i] {
				okp := false
				for _, p := range pubs {
					if p.actor.String() == r.actor && p.pos < unsubPos[i] {
						okp = true
					}
				}
				if !okp {
					diff = fmt.Sprintf("subscriber %d (subscribed at %d, unsubscribed at %d) read a notification of actor %s that no publish before its Unsubscribe explains",
						i, subPos[i], unsubPos[i], r.actor)
					return
				}
			}
			if subs[i] != nil && !c.stalled(i) && !closedSeen[i] {
				diff = fmt.Sprintf("subscriber %d: channel still open after Unsubscribe", i)
				return
			}
		}
		// oracle 3: nothing leaks
		if ids := ps.ClientIDs(docKey); len(ids) != 0 {
			diff = fmt.Sprintf("ClientIDs not empty after everybody unsubscribed: %d", len(ids))
			return
		}
		// Goroutines left blocked in the bubble when it ends make synctest.Test
		// panic ("blocked goroutines remain"): the launcher reports that as a leak.
		nclosed := 0
		for i := range closedSeen {
			if closedSeen[i] && closedAt[i].Before(unsubAt[i]) {
				nclosed++
			}
		}
		outcome = fmt.Sprintf("required=%d delivered=%d closed-by-server=%d", required, delivered, nclosed)
	})
	return diff, outcome
}

// sequences enumerates every interleaving of the subscribers' programs ([sub,
// unsub], or [sub] for those in stay), the publishers' [pub x perPub] programs
// and up to maxEnv clock events.
func sequences(nsub, npub, perPub, maxEnv int, stay map[int]bool, self bool, yield func(seq []string) bool) {
	type prog struct {
		evs []string
		pc  int
	}
	var progs []*prog
	for i := 0; i < nsub; i++ {
		evs := []string{fmt.Sprintf("sub%d", i)}
		if !stay[i] {
			evs = append(evs, fmt.Sprintf("unsub%d", i))
		}
		progs = append(progs, &prog{evs: evs})
	}
	for j := 0; j < npub; j++ {
		var evs []string
		for k := 0; k < perPub; k++ {
			evs = append(evs, fmt.Sprintf("pub%d", j))
		}
		progs = append(progs, &prog{evs: evs})
	}
	var seq []string
	env := 0
	var rec func() bool
	rec = func() bool {
		done := true
		for _, p := range progs {
			if p.pc < len(p.evs) {
				done = false
			}
		}
		if done {
			return yield(append([]string(nil), seq...))
		}
		for pi, p := range progs {
			if p.pc >= len(p.evs) {
				continue
			}
			// symmetry: identical publishers start in index order (publisher 0 is
			// different from the others when it publishes under a subscriber's id)
			if pi > nsub && !(self && pi == nsub+1) && progs[pi-1].pc == 0 {
				continue
			}
			seq = append(seq, p.evs[p.pc])
			p.pc++
			ok := rec()
			p.pc--
			seq = seq[:len(seq)-1]
			if !ok {
				return false
			}
		}
		if env < maxEnv && len(seq) > 0 {
			for _, e := range []string{"tick", "half"} {
				seq = append(seq, e)
				env++
				ok := rec()
				env--
				seq = seq[:len(seq)-1]
				if !ok {
					return false
				}
			}
		}
		return true
	}
	rec()
}

func TestC17(t *testing.T) {
	_ = logging.SetLogLevel("fatal")
	prev := pubsub.SetDefaultMaxConsecutivePublishFailures(maxFailures)
	defer pubsub.SetDefaultMaxConsecutivePublishFailures(prev)
	res := &result{Outcomes: map[string]int{}, Counters: map[string]int{}}
	deadline := time.Now().Add(time.Duration(*flagBudget * float64(time.Second)))
	if *flagCase != "" {
		var c caseSpec
		if err := json.Unmarshal([]byte(*flagCase), &c); err != nil {
			t.Fatal(err)
		}
		diff, _ := runCase(t, c)
		if diff != "" {
			res.Found = append(res.Found, found{Kind: "watch", Detail: diff})
		}
		writeResult(res)
		return
	}
	// per is the number of publishes of each publisher: the batch publisher
	// keeps at most two pending DocChanged events per publishing actor, so 3
	// publishes of one actor and 2+1 of two actors inside one window are the
	// smallest inputs that reach its de-duplication. self: publisher 0 is
	// subscriber 0 (reaches the own-event filter).
	type cfg struct {
		nsub, npub, per, env int
		self                 bool
	}
	cfgs := []cfg{{1, 1, 1, 2, false}, {1, 1, 3, 2, false}, {2, 1, 1, 2, true}, {2, 1, 2, 2, false}, {1, 2, 1, 2, false}, {1, 2, 2, 2, false},
		{2, 2, 1, 1, true}, {2, 2, 2, 1, false}}
	if *flagTier == "thorough" {
		cfgs = []cfg{{1, 1, 1, 3, false}, {1, 1, 3, 3, false}, {2, 1, 1, 3, true}, {2, 1, 3, 2, true}, {1, 2, 1, 3, false}, {1, 2, 2, 3, false}, {1, 2, 3, 2, false},
			{2, 2, 1, 2, true}, {2, 2, 2, 2, false}, {2, 2, 2, 1, true}, {3, 1, 1, 2, true}, {3, 1, 2, 1, false}, {3, 2, 1, 1, true}, {2, 3, 1, 1, false},
			{1, 3, 2, 2, false}, {2, 3, 2, 1, false}}
	}
	job := 0
	for _, c := range cfgs {
		name := fmt.Sprintf("subs%d/pubs%dx%d/env<=%d/self=%v", c.nsub, c.npub, c.per, c.env, c.self)
		// every subscriber is a prompt reader or a stalled consumer, and leaves
		// inside the sequence or stays until the horizon: every combination
		incomplete := false
		for mask := 0; mask < 1<<(2*c.nsub) && !incomplete; mask++ {
			stay := map[int]bool{}
			var sl []int
			for i := 0; i < c.nsub; i++ {
				if mask&(1<<(2*i)) != 0 {
					sl = append(sl, i)
				}
				if mask&(1<<(2*i+1)) != 0 {
					stay[i] = true
				}
			}
			sequences(c.nsub, c.npub, c.per, c.env, stay, c.self, func(seq []string) bool {
				job++
				if job%*flagShards != *flagShard {
					return true
				}
				if time.Now().After(deadline) {
					incomplete = true
					return false
				}
				cs := caseSpec{Seq: seq, NSub: c.nsub, Stalled: sl, Self: c.self}
				diff, outcome := runCase(t, cs)
				res.Evaluations++
				if c.nsub+c.npub >= 3 {
					res.Nontrivial++
				}
				res.Outcomes[outcome]++
				if diff != "" {
					raw, _ := json.Marshal(cs)
					res.Found = append(res.Found, found{Kind: "watch", Detail: diff + "\nsequence: " + strings.Join(seq, " ") + fmt.Sprintf(" (stalled consumers %v)", sl),
						Case: string(raw), Core: "watch|" + normalise(diff)})
					if len(res.Found) > 50 {
						return false
					}
				} else if len(res.Samples) < 3 && job%401 == 0 {
					res.Samples = append(res.Samples, map[string]any{"sequence": strings.Join(seq, " "), "stalled_consumers": sl, "outcome": outcome})
				}
				return true
			})
		}
		if incomplete {
			res.Incomplete = append(res.Incomplete, "c17/"+name)
		} else if *flagShard == 0 {
			res.Completed = append(res.Completed, "c17/"+name)
		}
	}
	writeResult(res)
}

func normalise(s string) string {
	// keep the kind of disagreement, drop positions
	if i := strings.Index(s, "("); i > 0 && strings.HasPrefix(s, "subscriber") {
		s = "subscriber" + s[strings.Index(s, ")")+1:]
	}
	var sb strings.Builder
	for _, c := range s {
		if c >= '0' && c <= '9' {
			continue
		}
		sb.WriteRune(c)
	}
	out := sb.String()
	if i := strings.Index(out, "; received"); i > 0 {
		out = out[:i]
	}
	if len(out) > 120 {
		out = out[:120]
	}
	return out
}

func writeResult(res *result) {
	if *flagOut == "" {
		b, _ := json.MarshalIndent(res, "", " ")
		fmt.Println(string(b))
		return
	}
	b, _ := json.Marshal(res)
	_ = os.WriteFile(*flagOut, b, 0o644)
}
