package pubsubmc

// C17, real-time part: Unsubscribe of a STALLED watcher while the batch
// publisher is inside its timed send to that watcher. testing/synctest cannot
// reach this window on the unchanged code (Unsubscribe waits for a sync.Mutex
// that the publisher holds across the timed wait, and a goroutine waiting for
// a mutex is not durably blocked, so virtual time would stop), so this one
// scenario runs on the real clock: the unsubscribe is issued at a given offset
// after the second event was published, and the driver sweeps the offset in
// steps much smaller than the 100 ms the publisher waits for a stalled
// consumer, so that one of the offsets lands inside the wait whatever the
// phase of the flush ticker. The oracle has no time bound that load could
// break: no crash (a send on the closed channel kills the process from the
// publisher's goroutine, which is why every offset runs in a child process),
// the unsubscribed watcher's channel gets closed, nothing is left registered.

import (
	"context"
	"flag"
	"fmt"
	"testing"
	"time"

	"github.com/yorkie-team/yorkie/api/types/events"
	"github.com/yorkie-team/yorkie/server/backend/pubsub"
	"github.com/yorkie-team/yorkie/server/logging"
)

var flagOffset = flag.Int("offset", -1, "TestC17R: milliseconds between the second publish and the unsubscribe of the stalled watcher")

func TestC17R(t *testing.T) {
	if *flagOffset < 0 {
		t.Skip("needs -offset")
	}
	_ = logging.SetLogLevel("fatal")
	ctx := context.Background()
	ps := pubsub.New()
	stalled, _, err := ps.Subscribe(ctx, actor(0), docKey, 0)
	if err != nil {
		t.Fatal(err)
	}
	healthy, _, err := ps.Subscribe(ctx, actor(1), docKey, 0)
	if err != nil {
		t.Fatal(err)
	}
	got := make(chan string, 16)
	go func() {
		for ev := range healthy.Events() {
			got <- ev.Actor.String()
		}
		close(got)
	}()
	pub := func(j int) {
		a := actor(10 + j)
		ps.Publish(ctx, a, events.DocEvent{Type: events.DocChanged, Key: docKey, Actor: a})
	}
	// first event: fills the stalled watcher's one-slot buffer
	pub(0)
	deadline := time.Now().Add(10 * time.Second)
	for len(stalled.Events()) == 0 {
		if time.Now().After(deadline) {
			t.Fatal("the first event never reached the stalled watcher's buffer")
		}
		time.Sleep(2 * time.Millisecond)
	}
	// second event (another actor): the next flush blocks on the stalled watcher
	pub(1)
	time.Sleep(time.Duration(*flagOffset) * time.Millisecond)
	ps.Unsubscribe(ctx, docKey, stalled)
	// the unsubscribed watcher's stream ends
	closed := make(chan struct{})
	go func() {
		for range stalled.Events() {
		}
		close(closed)
	}()
	select {
	case <-closed:
	case <-time.After(20 * time.Second):
		t.Fatal("C17R-VERDICT: the channel of the unsubscribed watcher was never closed")
	}
	// let the publisher finish whatever it was doing, then everybody leaves
	time.Sleep(3 * window)
	ps.Unsubscribe(ctx, docKey, healthy)
	deadline = time.Now().Add(20 * time.Second)
	for len(ps.ClientIDs(docKey)) != 0 {
		if time.Now().After(deadline) {
			t.Fatalf("C17R-VERDICT: ClientIDs not empty after everybody unsubscribed: %d", len(ps.ClientIDs(docKey)))
		}
		time.Sleep(5 * time.Millisecond)
	}
	fmt.Println("C17R-OK offset", *flagOffset)
}
