// vprim drives the primitive-level exploration (package prim). It is built
// with the sync/atomic shim overlay (see bin/build_prim.sh):
//
//	vprim explore <tier> <shard> <nshards> <budget-seconds> <out.json>
//	vprim replay '<case json>'
//	vprim free <rounds>        (free-running pass, meant for the -race build)
package main

import (
	"encoding/json"
	"fmt"
	"os"
	"strconv"
	"strings"
	"time"

	"verifmc/prim"
	"verifmc/sched"
)

type found struct {
	Kind, Detail, Case, Core string
}

type result struct {
	Evaluations int            `json:"evaluations"`
	Nontrivial  int            `json:"nontrivial"`
	Outcomes    map[string]int `json:"outcomes"`
	Samples     []any          `json:"samples"`
	Found       []found        `json:"found"`
	Incomplete  []string       `json:"incomplete"`
	Completed   []string       `json:"completed"`
}

type pcase struct {
	Scenario string `json:"scenario"`
	Tier     string `json:"tier"`
	Choices  []int  `json:"choices"`
}

func main() {
	if len(os.Args) < 2 {
		fmt.Fprintln(os.Stderr, "usage: vprim explore|replay|free ...")
		os.Exit(2)
	}
	switch os.Args[1] {
	case "explore":
		explore(os.Args[2:])
	case "replay":
		replay(os.Args[2])
	case "free":
		free(os.Args[2])
	case "count":
		for _, sc := range prim.Scenarios(os.Args[2]) {
			sc := sc
			b, _ := strconv.Atoi(os.Args[3])
			s := time.Now()
			n, c := sched.ExploreFn(b, 0, func(p []int) (*sched.Exec, string) { return prim.RunOne(&sc, p, false) }, func([]int, string) bool { return true })
			fmt.Printf("%-60s bound=%d schedules=%d complete=%v %.1fs\n", sc.Name, b, n, c, time.Since(s).Seconds())
		}
	}
}

func norm(msg string) string {
	// strip stamps and numbers so that one defect has one core
	var sb strings.Builder
	for _, r := range msg {
		if r >= '0' && r <= '9' {
			continue
		}
		sb.WriteRune(r)
	}
	s := sb.String()
	if i := strings.Index(s, ":"); i > 0 && strings.HasPrefix(s, "not linearizable") {
		s = "not linearizable"
	}
	if len(s) > 90 {
		s = s[:90]
	}
	return s
}

func explore(a []string) {
	tier := a[0]
	shard, _ := strconv.Atoi(a[1])
	nshards, _ := strconv.Atoi(a[2])
	budget, _ := strconv.ParseFloat(a[3], 64)
	out := a[4]
	deadline := time.Now().Add(time.Duration(budget * float64(time.Second)))
	res := &result{Outcomes: map[string]int{}}
	// preemption bounds by thread count (quick / thorough): 2 threads 3 / 5, 3 threads 2 / 3, 4 threads 2 / 2
	bounds := map[int]int{2: 3, 3: 2, 4: 2}
	if tier == "thorough" {
		bounds = map[int]int{2: 5, 3: 3, 4: 2}
	}
	scs := prim.Scenarios(tier)
	for si := range scs {
		if si%nshards != shard {
			continue
		}
		sc := &scs[si]
		b := bounds[len(sc.Threads)]
		name := fmt.Sprintf("prim/%s/%s/bound%d", sc.Kind, sc.Name, b)
		perSc := 0
		_, complete := sched.ExploreFn(b, 0, func(prefix []int) (*sched.Exec, string) {
			if time.Now().After(deadline) {
				return nil, ""
			}
			x, verdict := prim.RunOne(sc, prefix, false)
			res.Evaluations++
			perSc++
			pre := 0
			for _, p := range x.Points {
				if p.Chosen != 0 && p.Running >= 0 && len(p.Enabled) > 0 && p.Enabled[0] == p.Running {
					pre++
				}
			}
			if pre > 0 {
				res.Nontrivial++
			}
			k := "ok"
			if verdict != "" {
				k = norm(verdict)
			}
			res.Outcomes[fmt.Sprintf("%s|%s|points=%d|%s", sc.Kind, sc.Name, len(x.Points), k)]++
			if len(res.Samples) < 2 && pre >= 2 && res.Evaluations%41 == 0 {
				xt, _ := prim.RunOne(sc, x.Choices(), true)
				res.Samples = append(res.Samples, map[string]any{"scenario": sc.Name, "schedule": xt.Trace, "preemptions": pre})
			}
			return x, verdict
		}, func(choices []int, msg string) bool {
			raw, _ := json.Marshal(pcase{Scenario: sc.Name, Tier: tier, Choices: choices})
			kind := "primitive"
			if strings.HasPrefix(msg, "deadlock") {
				kind = "deadlock"
			}
			res.Found = append(res.Found, found{Kind: kind, Detail: sc.Kind + " " + sc.Name + ": " + msg, Case: string(raw),
				Core: kind + "|" + sc.Kind + "|" + sc.Name + "|" + norm(msg)})
			return len(res.Found) < 10
		})
		if !complete || time.Now().After(deadline) {
			res.Incomplete = append(res.Incomplete, name)
		} else {
			res.Completed = append(res.Completed, fmt.Sprintf("%s/%d-schedules", name, perSc))
		}
	}
	b, _ := json.Marshal(res)
	if err := os.WriteFile(out, b, 0o644); err != nil {
		fmt.Fprintln(os.Stderr, err)
		os.Exit(2)
	}
}

func replay(raw string) {
	var c pcase
	if err := json.Unmarshal([]byte(raw), &c); err != nil {
		fmt.Fprintln(os.Stderr, err)
		os.Exit(2)
	}
	for _, sc := range prim.Scenarios(c.Tier) {
		if sc.Name == c.Scenario {
			sc := sc
			x, verdict := prim.RunOne(&sc, c.Choices, true)
			if x.Deadlock != "" {
				verdict = "deadlock: " + x.Deadlock
			}
			if x.Aborted != "" {
				fmt.Println("HARNESS:", x.Aborted)
				os.Exit(2)
			}
			fmt.Println("schedule:", strings.Join(x.Trace, " "))
			fmt.Println("verdict:", verdict)
			if verdict != "" {
				os.Exit(1)
			}
			os.Exit(0)
		}
	}
	fmt.Fprintln(os.Stderr, "unknown scenario", c.Scenario)
	os.Exit(2)
}

func free(rounds string) {
	n, _ := strconv.Atoi(rounds)
	it := 0
	for r := 0; r < n; r++ {
		for _, sc := range prim.Scenarios("thorough") {
			sc := sc
			if msg := prim.RunFree(&sc); msg != "" {
				fmt.Printf("PRIMFREE-VIOLATION: %s %s: %s\n", sc.Kind, sc.Name, msg)
			}
			it++
		}
	}
	fmt.Printf("primfree iterations=%d\n", it)
}
