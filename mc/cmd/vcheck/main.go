// Command vcheck is the driver of every check:
//
//	vcheck run <ID> <quick|thorough>      orchestrates workers, writes evidence
//	vcheck worker ...                      (internal) explores one shard
//	vcheck replay <file>                   re-executes a stored counterexample
package main

import (
	"crypto/sha1"
	"encoding/json"
	"fmt"
	"os"
	"os/exec"
	"path/filepath"
	"runtime"
	"runtime/pprof"
	"sort"
	"strconv"
	"strings"
	"sync"
	"time"

	"verifmc/checks"
	"verifmc/hist"
)

// verifDir is /verif; VERIF_DIR lets a scratch copy of the framework run next to
// it (seeded-change trials against a scratch worktree).
var verifDir = checks.VerifDir()

func main() {
	if len(os.Args) < 2 {
		usage()
	}
	switch os.Args[1] {
	case "run":
		if len(os.Args) < 4 {
			usage()
		}
		os.Exit(run(os.Args[2], os.Args[3]))
	case "worker":
		worker(os.Args[2:])
	case "replay":
		os.Exit(replay(os.Args[2]))
	case "repro":
		os.Exit(reproCmd(os.Args[2]))
	case "count":
		// development aid: size of every scenario of an Engine H check (upper
		// bound: histories in normal form before no-effect pruning)
		spec := checks.HSpecs[os.Args[2]]
		if spec == nil {
			fmt.Println("not an Engine H check")
			os.Exit(2)
		}
		scs := spec.Scenarios(os.Args[3])
		type r struct {
			name string
			n    int
		}
		out := make([]r, len(scs))
		var wg sync.WaitGroup
		sem := make(chan struct{}, 16)
		for i, sc := range scs {
			wg.Add(1)
			sem <- struct{}{}
			go func() {
				defer wg.Done()
				out[i] = r{sc.Name, hist.CountHistories(sc)}
				<-sem
			}()
		}
		wg.Wait()
		total := 0
		for _, o := range out {
			fmt.Printf("%10d %s\n", o.n, o.name)
			total += o.n
		}
		fmt.Printf("%10d TOTAL (%d scenarios)\n", total, len(scs))
		os.Exit(0)
	case "countshape":
		// development aid: vcheck countshape '<scenario json>' ... (one count per argument)
		for _, a := range os.Args[2:] {
			var sc hist.Scenario
			if err := json.Unmarshal([]byte(a), &sc); err != nil {
				fmt.Println(err)
				os.Exit(2)
			}
			fmt.Printf("%10d %s\n", hist.CountHistories(&sc), a)
		}
		os.Exit(0)
	case "racepass":
		secs, _ := strconv.ParseFloat(os.Args[2], 64)
		seed, _ := strconv.ParseInt(os.Getenv("VERIF_SEED"), 10, 64)
		n := checks.RacePass(secs, seed)
		fmt.Printf("racepass iterations=%d\n", n)
		os.Exit(0)
	default:
		usage()
	}
}

// recordInstances merges the violating instances of this run into
// known_instances/<id>.txt. Development aid (VERIF_RECORD_INSTANCES=1): the
// file is reviewed and committed by hand and never written by a normal run.
func recordInstances(id string, inst map[string]string) {
	all := map[string]string{}
	for k, v := range checks.LoadInstances(id) {
		all[k] = v
	}
	for k, v := range inst {
		all[k] = v
	}
	coreIdx := map[string]int{}
	var cores []string
	for _, c := range all {
		if _, ok := coreIdx[c]; !ok {
			coreIdx[c] = 0
			cores = append(cores, c)
		}
	}
	sort.Strings(cores)
	for i, c := range cores {
		coreIdx[c] = i
	}
	var keys []string
	for k := range all {
		keys = append(keys, k)
	}
	sort.Strings(keys)
	var sb strings.Builder
	for i, c := range cores {
		fmt.Fprintf(&sb, "#%d %s\n", i, c)
	}
	var fl []string
	for c := range checks.FlakyCores(id) {
		fl = append(fl, c)
	}
	sort.Strings(fl)
	for _, c := range fl {
		fmt.Fprintf(&sb, "~ %s\n", c)
	}
	for _, k := range keys {
		fmt.Fprintf(&sb, "%s %d\n", k, coreIdx[all[k]])
	}
	_ = os.MkdirAll(filepath.Join(verifDir, "known_instances"), 0o755)
	_ = os.WriteFile(filepath.Join(verifDir, "known_instances", id+".txt"), []byte(sb.String()), 0o644)
	fmt.Printf("recorded %d instances (%d cores) for %s\n", len(all), len(cores), id)
}

func usage() {
	fmt.Fprintln(os.Stderr, "usage: vcheck run <ID> <quick|thorough> | replay <file>")
	os.Exit(2)
}

// ---------------------------------------------------------------- worker

func worker(args []string) {
	id, tier := args[0], args[1]
	shard, _ := strconv.Atoi(args[2])
	nshards, _ := strconv.Atoi(args[3])
	budget, _ := strconv.ParseFloat(args[4], 64)
	out := args[5]
	c := checks.Registry[id]
	if c == nil {
		fmt.Fprintln(os.Stderr, "unknown check", id)
		os.Exit(2)
	}
	seed, _ := strconv.ParseInt(os.Getenv("VERIF_SEED"), 10, 64)
	env := &checks.Env{Tier: tier, Shard: shard, NShards: nshards,
		Deadline: time.Now().Add(time.Duration(budget * float64(time.Second))), Seed: seed,
		CurFile: out + ".cur"}
	// Watchdog: an execution that makes no progress for 3 minutes is a hang.
	go func() {
		last := int64(-1)
		lastChange := time.Now()
		for {
			time.Sleep(5 * time.Second)
			p := checks.Progress.Load()
			if p != last {
				last = p
				lastChange = time.Now()
				continue
			}
			if time.Since(lastChange) > 180*time.Second {
				fmt.Fprintln(os.Stderr, "WATCHDOG: no progress for 180s; goroutine dump follows")
				_ = pprof.Lookup("goroutine").WriteTo(os.Stderr, 2)
				os.Exit(3)
			}
		}
	}()
	res := c.Run(env)
	b, _ := json.Marshal(res)
	if err := os.WriteFile(out, b, 0o644); err != nil {
		fmt.Fprintln(os.Stderr, err)
		os.Exit(2)
	}
	os.Exit(0)
}

// ------------------------------------------------------------------- run

type knownFinding struct {
	Property string `json:"property"`
	Core     string `json:"core"`
	Summary  string `json:"summary"`
}

type knownFile struct {
	Findings []knownFinding `json:"findings"`
	Fixed    []string       `json:"fixed"`
}

func loadKnown() *knownFile {
	var k knownFile
	b, err := os.ReadFile(filepath.Join(verifDir, "known_findings.json"))
	if err != nil {
		return &k
	}
	if err := json.Unmarshal(b, &k); err != nil {
		fmt.Fprintln(os.Stderr, "known_findings.json:", err)
	}
	return &k
}

func run(id, tier string) int {
	start := time.Now()
	c := checks.Registry[id]
	if c == nil {
		fmt.Fprintln(os.Stderr, "unknown check", id)
		return 2
	}
	budget := c.QuickBudget
	if tier == "thorough" {
		budget = c.ThoroughBudget
	}
	if s := os.Getenv("VERIF_BUDGET_S"); s != "" {
		if f, err := strconv.ParseFloat(s, 64); err == nil {
			budget = time.Duration(f * float64(time.Second))
		}
	}
	n := runtime.NumCPU()
	if n > 16 {
		n = 16
	}
	if s := os.Getenv("VERIF_WORKERS"); s != "" {
		if v, err := strconv.Atoi(s); err == nil && v > 0 {
			n = v
		}
	}
	if c.SingleProcess {
		n = 1
	}
	work := filepath.Join(verifDir, ".work", id+"-"+tier)
	_ = os.RemoveAll(work)
	_ = os.MkdirAll(work, 0o755)
	self, _ := os.Executable()

	merged := checks.NewResult()
	var mu sync.Mutex
	var wg sync.WaitGroup
	var crashes []checks.Found
	for i := 0; i < n; i++ {
		wg.Add(1)
		go func(i int) {
			defer wg.Done()
			out := filepath.Join(work, fmt.Sprintf("w%d.json", i))
			errf, _ := os.Create(filepath.Join(work, fmt.Sprintf("w%d.err", i)))
			defer errf.Close()
			cmd := exec.Command(self, "worker", id, tier, strconv.Itoa(i), strconv.Itoa(n),
				fmt.Sprintf("%f", budget.Seconds()), out)
			cmd.Stderr = errf
			cmd.Stdout = errf
			cmd.Env = append(os.Environ(), "GOMAXPROCS=2", "GOMEMLIMIT=3GiB")
			err := cmd.Run()
			mu.Lock()
			defer mu.Unlock()
			if err != nil {
				// The worker died: the case it was executing is the suspect.
				cur, _ := os.ReadFile(out + ".cur")
				tail := tailFile(errf.Name(), 4000)
				var f checks.Found
				if json.Unmarshal(cur, &f) == nil && (f.Hist != nil || f.Case != nil) {
					f.Property = id
					f.Kind = "crash"
					f.Sig = "crash:" + crashSig(tail)
					f.Detail = fmt.Sprintf("worker %d died (%v)\n%s", i, err, tail)
					crashes = append(crashes, f)
				} else {
					merged.HarnessErr = append(merged.HarnessErr, fmt.Sprintf("worker %d died without a current case: %v\n%s", i, err, tail))
				}
				merged.Incomplete = append(merged.Incomplete, fmt.Sprintf("shard %d (worker died)", i))
				return
			}
			b, err := os.ReadFile(out)
			if err != nil {
				merged.HarnessErr = append(merged.HarnessErr, err.Error())
				return
			}
			var r checks.Result
			if err := json.Unmarshal(b, &r); err != nil {
				merged.HarnessErr = append(merged.HarnessErr, err.Error())
				return
			}
			merged.Merge(&r)
		}(i)
	}
	wg.Wait()

	if c.PostRun != nil {
		c.PostRun(merged, tier)
	}

	// A crashed worker's suspect case is re-run in fresh subprocesses.
	for _, f := range crashes {
		died := 0
		for k := 0; k < 3; k++ {
			if !reproInSubprocess(self, work, &f) {
				died++
			}
		}
		if died > 0 {
			f.Detail = fmt.Sprintf("reproduced %d/3 in fresh subprocesses\n%s", died, f.Detail)
			merged.Found = append(merged.Found, f)
		} else {
			merged.HarnessErr = append(merged.HarnessErr, "worker death did not reproduce: "+f.Detail)
		}
	}

	// Classify violations: re-run 5x, minimise, match against known findings.
	known := loadKnown()
	type final struct {
		f     checks.Found
		repro int
		known *knownFinding
		path  string
	}
	var finals []final
	seenCore := map[string]bool{}
	sort.SliceStable(merged.Found, func(i, j int) bool { return len(merged.Found[i].Hist) < len(merged.Found[j].Hist) })
	classifyDeadline := time.Now().Add(10 * time.Minute)
	for _, f := range merged.Found {
		f := f
		repro := 0
		if f.Kind == "crash" {
			repro = 5
		} else if c.Reproduce != nil {
			for k := 0; k < 5; k++ {
				ok, err := c.Reproduce(&f)
				if err != nil {
					merged.HarnessErr = append(merged.HarnessErr, "reproduce: "+err.Error())
					break
				}
				if ok {
					repro++
				}
			}
		} else {
			repro = 5
		}
		if c.Minimise != nil && f.Kind != "crash" && f.Core == "" && time.Now().Before(classifyDeadline) {
			// Minimise also when the violation is not reproducible every time
			// (the implementation iterates Go maps): the reproducer then retries.
			if m := c.Minimise(&f); m != nil {
				f = *m
			}
		}
		f.Core = checks.CoreKey(&f)
		if seenCore[f.Core] {
			continue
		}
		seenCore[f.Core] = true
		fin := final{f: f, repro: repro}
		for i := range known.Findings {
			if known.Findings[i].Property == id && known.Findings[i].Core == f.Core {
				fin.known = &known.Findings[i]
			}
			// a history that is not in the instance baseline, does not recur on every
			// re-execution and minimises to a listed core: the listed finding, seen
			// through Go's map iteration order
			if f.NewInstance && f.Flaky && known.Findings[i].Property == id && known.Findings[i].Core == f.BaseCore {
				fin.known = &known.Findings[i]
				merged.Notes = append(merged.Notes, "flaky instance of a listed core: "+f.BaseCore+" <- "+f.Original)
			}
		}
		if fin.known == nil {
			fin.path = writeReplay(&f)
		}
		finals = append(finals, fin)
	}

	if os.Getenv("VERIF_RECORD_INSTANCES") != "" {
		recordInstances(id, merged.Instances)
	}
	violations := 0
	for _, fin := range finals {
		if fin.known != nil {
			fmt.Printf("KNOWN-FINDING: property=%s %s\n", id, fin.known.Summary)
			continue
		}
		violations++
		fmt.Printf("VIOLATION property=%s replay=%s\n", id, fin.path)
		fmt.Printf("  kind=%s sig=%s reproduced=%d/5\n  core=%s\n  %s\n", fin.f.Kind, fin.f.Sig, fin.repro, fin.f.Core,
			strings.ReplaceAll(truncate(fin.f.Detail, 1500), "\n", "\n  "))
	}
	harnessBroken := len(merged.HarnessErr) > 0
	for _, e := range merged.HarnessErr {
		fmt.Fprintln(os.Stderr, "HARNESS-ERROR:", truncate(e, 2000))
	}

	// Evidence.
	exhaustive := len(merged.Incomplete) == 0 && !harnessBroken
	distinct := len(merged.Outcomes)
	cov := map[string]any{
		"evaluations":         merged.Evaluations,
		"distinct_nontrivial": merged.Nontrivial,
		"distinct_outcomes":   distinct,
		"rule":                c.Rule,
		"samples":             merged.Samples,
		"exhaustive":          exhaustive,
		"counters":            merged.Counters,
		"scenarios_completed": len(merged.Completed),
		"incomplete":          dedupe(merged.Incomplete),
		"workers":             n,
		"budget_s":            budget.Seconds(),
		"notes":               merged.Notes,
	}
	if merged.States > 0 {
		cov["states"] = merged.States
		cov["transitions"] = merged.Transitions
		cov["traces_validated_against_impl"] = merged.Evaluations
	}
	var kf []string
	for _, fin := range finals {
		if fin.known != nil {
			kf = append(kf, fin.known.Core)
		}
	}
	cov["known_findings_hit"] = kf
	if len(merged.Samples) == 0 {
		cov["samples"] = []any{"(no sample recorded)"}
	}
	seed, _ := strconv.ParseInt(os.Getenv("VERIF_SEED"), 10, 64)
	ev := map[string]any{
		"property_id": id,
		"tier":        tier,
		"seed":        seed,
		"level":       c.Level,
		"coverage":    cov,
		"assumptions": c.Assume,
		"wall_s":      time.Since(start).Seconds(),
		"violations":  violations,
	}
	b, _ := json.MarshalIndent(ev, "", " ")
	_ = os.MkdirAll(filepath.Join(verifDir, "evidence"), 0o755)
	_ = os.WriteFile(filepath.Join(verifDir, "evidence", id+".json"), b, 0o644)
	// evidence/<id>.json always describes the LAST run; keep one record per tier
	// as well so that a quick run does not erase what the thorough run covered
	_ = os.MkdirAll(filepath.Join(verifDir, "runs"), 0o755)
	_ = os.WriteFile(filepath.Join(verifDir, "runs", id+"-"+tier+".json"), b, 0o644)

	fmt.Printf("%s %s: evaluations=%d nontrivial=%d outcomes=%d scenarios=%d exhaustive=%v violations=%d known=%d wall=%.1fs\n",
		id, tier, merged.Evaluations, merged.Nontrivial, distinct, len(merged.Completed), exhaustive, violations, len(kf), time.Since(start).Seconds())
	if violations > 0 {
		return 1
	}
	if harnessBroken {
		return 2
	}
	return 0
}

func dedupe(in []string) []string {
	m := map[string]bool{}
	var out []string
	for _, s := range in {
		if !m[s] {
			m[s] = true
			out = append(out, s)
		}
	}
	sort.Strings(out)
	if len(out) > 50 {
		out = append(out[:50], fmt.Sprintf("... and %d more", len(out)-50))
	}
	return out
}

func truncate(s string, n int) string {
	if len(s) > n {
		return s[:n] + "..."
	}
	return s
}

func tailFile(p string, n int) string {
	b, _ := os.ReadFile(p)
	if len(b) > n {
		// keep the head of the crash (first lines are the most telling) and the tail
		return string(b[:n/2]) + "\n...\n" + string(b[len(b)-n/2:])
	}
	return string(b)
}

func crashSig(tail string) string {
	for _, l := range strings.Split(tail, "\n") {
		if strings.HasPrefix(l, "fatal error:") || strings.HasPrefix(l, "panic:") || strings.HasPrefix(l, "WATCHDOG") {
			return truncate(l, 100)
		}
	}
	return "unknown"
}

func writeReplay(f *checks.Found) string {
	b, _ := json.MarshalIndent(f, "", " ")
	h := sha1.Sum([]byte(f.Core))
	dir := filepath.Join(verifDir, "replays")
	_ = os.MkdirAll(dir, 0o755)
	p := filepath.Join(dir, fmt.Sprintf("%s-%x.json", f.Property, h[:5]))
	_ = os.WriteFile(p, b, 0o644)
	return p
}

func reproInSubprocess(self, work string, f *checks.Found) bool {
	b, _ := json.Marshal(f)
	p := filepath.Join(work, "crash-case.json")
	_ = os.WriteFile(p, b, 0o644)
	cmd := exec.Command(self, "repro", p)
	cmd.Env = append(os.Environ(), "GOMEMLIMIT=3GiB")
	done := make(chan error, 1)
	go func() { done <- cmd.Run() }()
	select {
	case err := <-done:
		return err == nil
	case <-time.After(5 * time.Minute):
		_ = cmd.Process.Kill()
		return false
	}
}

// reproCmd executes the case once and exits 0 if the process survives.
func reproCmd(path string) int {
	b, err := os.ReadFile(path)
	if err != nil {
		return 2
	}
	var f checks.Found
	if err := json.Unmarshal(b, &f); err != nil {
		return 2
	}
	c := checks.Registry[f.Property]
	if c == nil || c.Reproduce == nil {
		return 0
	}
	_, _ = c.Reproduce(&f)
	return 0
}

// ---------------------------------------------------------------- replay

func replay(path string) int {
	b, err := os.ReadFile(path)
	if err != nil {
		fmt.Fprintln(os.Stderr, err)
		return 2
	}
	var f checks.Found
	if err := json.Unmarshal(b, &f); err != nil {
		fmt.Fprintln(os.Stderr, err)
		return 2
	}
	c := checks.Registry[f.Property]
	if c == nil || c.Reproduce == nil {
		fmt.Fprintln(os.Stderr, "no reproducer for", f.Property)
		return 2
	}
	if r, err := checks.Runner(); err == nil && f.Hist != nil {
		r.Trace = os.Stdout
	}
	checks.STrace = os.Stdout
	ok, err := c.Reproduce(&f)
	if err != nil {
		fmt.Fprintln(os.Stderr, "harness error:", err)
		return 2
	}
	if ok {
		fmt.Printf("VIOLATION property=%s replay=%s\n  kind=%s sig=%s\n", f.Property, path, f.Kind, f.Sig)
		return 1
	}
	fmt.Printf("replay of %s: no violation with kind=%s sig=%s\n", path, f.Kind, f.Sig)
	return 0
}
