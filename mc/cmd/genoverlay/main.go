// genoverlay writes a `go build -overlay` description that replaces, in the
// listed packages of the repository under test, the imports "sync" and
// "sync/atomic" by the scheduler-aware shims verifmc/vsync and verifmc/vatomic
// (purely syntactic, go/ast; the repository itself is not touched), and adds a
// small file of accessors the primitive harness needs.
//
// usage: genoverlay <repo> <outdir> <pkgdir>...
package main

import (
	"encoding/json"
	"fmt"
	"go/ast"
	"go/parser"
	"go/printer"
	"go/token"
	"os"
	"path/filepath"
	"strconv"
	"strings"
)

var extra = map[string]string{
	"pkg/locker/zz_verif_prim.go": `package locker

// LenForVerif reports how many named locks are currently registered.
func (l *Locker) LenForVerif() int {
	l.mu.Lock()
	defer l.mu.Unlock()
	return len(l.locks)
}
`,
}

func main() {
	if len(os.Args) < 4 {
		fmt.Fprintln(os.Stderr, "usage: genoverlay <repo> <outdir> <pkgdir>...")
		os.Exit(2)
	}
	repo, out := os.Args[1], os.Args[2]
	repl := map[string]string{}
	rewritten := 0
	for _, dir := range os.Args[3:] {
		ents, err := os.ReadDir(filepath.Join(repo, dir))
		if err != nil {
			fatal(err)
		}
		for _, e := range ents {
			n := e.Name()
			if e.IsDir() || !strings.HasSuffix(n, ".go") || strings.HasSuffix(n, "_test.go") {
				continue
			}
			src := filepath.Join(repo, dir, n)
			fset := token.NewFileSet()
			f, err := parser.ParseFile(fset, src, nil, parser.ParseComments)
			if err != nil {
				fatal(err)
			}
			changed := false
			for _, im := range f.Imports {
				p, _ := strconv.Unquote(im.Path.Value)
				var np, name string
				switch p {
				case "sync":
					np, name = "verifmc/vsync", "sync"
				case "sync/atomic":
					np, name = "verifmc/vatomic", "atomic"
				default:
					continue
				}
				if im.Name != nil && im.Name.Name != name {
					name = im.Name.Name
				}
				im.Path.Value = strconv.Quote(np)
				im.Name = ast.NewIdent(name)
				changed = true
			}
			if !changed {
				continue
			}
			dst := filepath.Join(out, dir, n)
			if err := os.MkdirAll(filepath.Dir(dst), 0o755); err != nil {
				fatal(err)
			}
			w, err := os.Create(dst)
			if err != nil {
				fatal(err)
			}
			if err := printer.Fprint(w, fset, f); err != nil {
				fatal(err)
			}
			w.Close()
			repl[src] = dst
			rewritten++
		}
	}
	for rel, body := range extra {
		ok := false
		for _, dir := range os.Args[3:] {
			if filepath.Dir(rel) == filepath.Clean(dir) {
				ok = true
			}
		}
		if !ok {
			continue
		}
		dst := filepath.Join(out, rel)
		if err := os.MkdirAll(filepath.Dir(dst), 0o755); err != nil {
			fatal(err)
		}
		if err := os.WriteFile(dst, []byte(body), 0o644); err != nil {
			fatal(err)
		}
		repl[filepath.Join(repo, rel)] = dst
	}
	if rewritten == 0 {
		fatal(fmt.Errorf("no file imports sync or sync/atomic in %v: the shim would observe nothing", os.Args[3:]))
	}
	b, _ := json.MarshalIndent(map[string]any{"Replace": repl}, "", " ")
	if err := os.WriteFile(filepath.Join(out, "overlay.json"), b, 0o644); err != nil {
		fatal(err)
	}
	fmt.Printf("overlay: %d files rewritten, %d added\n", rewritten, len(repl)-rewritten)
}

func fatal(err error) {
	fmt.Fprintln(os.Stderr, "genoverlay:", err)
	os.Exit(2)
}
