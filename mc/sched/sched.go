// Package sched is Engine S: a cooperative scheduler that runs real goroutines
// of the implementation one at a time and explores their interleavings
// exhaustively up to a preemption bound.
//
// Scheduling points are (a) every named-lock operation of
// server/backend/sync (the verif trace hook fires at the top of
// lock/tryLock/RLock/Unlock/RUnlock), (b) every storage call (the generated
// Backend.DB decorator), (c) thread start and end. Named locks are modelled by
// the scheduler (Go RWMutex semantics including writer preference: a writer
// that has announced itself blocks readers that arrive later), so a thread is
// only let into a lock operation when it will not block; "no enabled thread
// while some thread is unfinished" is a deadlock.
package sched

import (
	"bytes"
	"fmt"
	"runtime"
	"strconv"
	"strings"
	"sync"
)

// Thread is one managed goroutine.
type Thread struct {
	ID      int
	Name    string
	wake    chan struct{}
	done    bool
	started bool
	// what the thread waits for while parked
	waitOp, waitKey string
	// pendingWriter: the thread has announced Lock(key) and waits for it
	pendingWriter bool
	// pendingReader: announced RLock(key) and waits
	pendingReader bool
	goid          int64
	body          func()
	Err           any // panic value
	// depth of nested Enter sections (touched by the thread itself only)
	depth int
}

type lockState struct {
	writer  int   // thread id holding the write lock, -1 if none
	readers []int // thread ids holding read locks
	// writers waiting in arrival order (announced)
	waitW []int
}

// Point is one scheduling decision.
type Point struct {
	Enabled []int // thread ids, canonical order: running thread first (if enabled), then ascending
	Chosen  int   // index into Enabled
	Running int   // thread that was running before the point (-1 none)
}

// Exec is one controlled execution.
type Exec struct {
	mu       sync.Mutex
	threads  []*Thread
	byGoid   map[int64]*Thread
	locks    map[string]*lockState
	running  int
	ctrl     chan struct{} // signalled when the running thread parks or ends
	prefix   []int
	Points   []Point
	Trace    []string
	Deadlock string
	// LockOrder violations observed.
	OrderViol []string
	held      map[int][]string // per thread: named locks held, in acquisition order
	MaxPoints int
	Aborted   string
	// PointHook lets the harness observe points (op, key) of thread id.
	KeepTrace bool
	// names of anonymous synchronisation objects (shimmed mutexes, atomics),
	// assigned in order of first use so that they are the same in every replay
	names map[any]string
}

// NameOf returns a stable name for an anonymous synchronisation object (a
// pointer): "o1", "o2", ... in order of first use within this execution.
func (x *Exec) NameOf(p any) string {
	x.mu.Lock()
	defer x.mu.Unlock()
	if x.names == nil {
		x.names = map[any]string{}
	}
	n, ok := x.names[p]
	if !ok {
		n = "o" + strconv.Itoa(len(x.names)+1)
		x.names[p] = n
	}
	return n
}

var (
	curMu sync.Mutex
	cur   *Exec
)

// Current returns the execution in progress (nil outside).
func Current() *Exec {
	curMu.Lock()
	defer curMu.Unlock()
	return cur
}

func goid() int64 {
	var buf [64]byte
	n := runtime.Stack(buf[:], false)
	// "goroutine 123 [running]:"
	f := bytes.Fields(buf[:n])
	if len(f) < 2 {
		return -1
	}
	id, _ := strconv.ParseInt(string(f[1]), 10, 64)
	return id
}

// NewExec prepares an execution that replays prefix and then always takes
// choice 0.
func NewExec(prefix []int) *Exec {
	return &Exec{byGoid: map[int64]*Thread{}, locks: map[string]*lockState{}, running: -1, ctrl: make(chan struct{}, 1),
		prefix: prefix, held: map[int][]string{}, MaxPoints: 20000}
}

// Go registers a managed thread; it starts parked.
func (x *Exec) Go(name string, body func()) *Thread {
	x.mu.Lock()
	t := &Thread{ID: len(x.threads), Name: name, wake: make(chan struct{}, 1), body: body}
	x.threads = append(x.threads, t)
	x.mu.Unlock()
	go func() {
		t.goid = goid()
		x.mu.Lock()
		x.byGoid[t.goid] = t
		x.mu.Unlock()
		<-t.wake // wait to be scheduled for the first time
		defer func() {
			if r := recover(); r != nil {
				t.Err = r
			}
			x.mu.Lock()
			t.done = true
			// a finished thread holding named locks is itself a bug, but release the model anyway
			x.mu.Unlock()
			x.ctrl <- struct{}{}
		}()
		body()
	}()
	return t
}

// me returns the managed thread of the calling goroutine (nil if unmanaged).
func (x *Exec) me() *Thread {
	id := goid()
	x.mu.Lock()
	defer x.mu.Unlock()
	return x.byGoid[id]
}

// park hands control back to the controller and waits to be chosen again.
func (x *Exec) park(t *Thread) {
	x.ctrl <- struct{}{}
	<-t.wake
}

// Yield is a plain scheduling point (storage call, etc.).
func (x *Exec) Yield(op, key string) {
	t := x.me()
	if t == nil {
		return
	}
	x.mu.Lock()
	t.waitOp, t.waitKey = op, key
	x.mu.Unlock()
	x.park(t)
	x.mu.Lock()
	t.waitOp, t.waitKey = "", ""
	x.mu.Unlock()
}

// Enter is a scheduling point for an operation that may call back into other
// hooked operations while it holds a real lock (a cmap operation running an
// upsert/delete callback): only the outermost operation is a point, and the
// nesting ends when the returned function is called.
func (x *Exec) Enter(op, key string) func() {
	t := x.me()
	if t == nil {
		return func() {}
	}
	t.depth++
	if t.depth == 1 {
		x.Yield(op, key)
	}
	return func() { t.depth-- }
}

func (x *Exec) lock(key string) *lockState {
	ls := x.locks[key]
	if ls == nil {
		ls = &lockState{writer: -1}
		x.locks[key] = ls
	}
	return ls
}

// LockOp is called from the trace hook at the top of every named-lock
// operation, before the real operation runs.
func (x *Exec) LockOp(op, key string) {
	t := x.me()
	if t == nil {
		return
	}
	switch op {
	case "unlock", "runlock":
		// releasing never blocks; update the model, then yield so that others may run
		x.mu.Lock()
		ls := x.lock(key)
		if op == "unlock" {
			if ls.writer == t.ID {
				ls.writer = -1
			}
		} else {
			for i, r := range ls.readers {
				if r == t.ID {
					ls.readers = append(ls.readers[:i], ls.readers[i+1:]...)
					break
				}
			}
		}
		h := x.held[t.ID]
		for i := len(h) - 1; i >= 0; i-- {
			if h[i] == key {
				x.held[t.ID] = append(h[:i], h[i+1:]...)
				break
			}
		}
		x.mu.Unlock()
		return
	case "trylock":
		// a scheduling point; the real TryLock then succeeds or fails according to the model
		x.Yield(op, key)
		x.mu.Lock()
		ls := x.lock(key)
		if ls.writer == -1 && len(ls.readers) == 0 {
			ls.writer = t.ID
			x.noteAcquire(t, key)
		}
		x.mu.Unlock()
		return
	case "tryrlock":
		// Go's TryRLock fails while a writer holds the lock or waits for it
		x.Yield(op, key)
		x.mu.Lock()
		ls := x.lock(key)
		if ls.writer == -1 && len(ls.waitW) == 0 {
			ls.readers = append(ls.readers, t.ID)
			x.noteAcquire(t, key)
		}
		x.mu.Unlock()
		return
	case "lock", "rlock":
		// step 1: the moment of calling Lock/RLock is a scheduling point
		x.Yield(op+"?", key)
		// step 2: announce; if the lock is not available the thread waits (disabled)
		x.mu.Lock()
		ls := x.lock(key)
		if op == "lock" {
			if ls.writer == -1 && len(ls.readers) == 0 && len(ls.waitW) == 0 {
				ls.writer = t.ID
				x.noteAcquire(t, key)
				x.mu.Unlock()
				return
			}
			ls.waitW = append(ls.waitW, t.ID)
			t.pendingWriter = true
		} else {
			if ls.writer == -1 && len(ls.waitW) == 0 {
				ls.readers = append(ls.readers, t.ID)
				x.noteAcquire(t, key)
				x.mu.Unlock()
				return
			}
			t.pendingReader = true
		}
		t.waitOp, t.waitKey = op, key
		x.mu.Unlock()
		x.park(t) // enabled again only when the model can grant the lock
		x.mu.Lock()
		ls = x.lock(key)
		if op == "lock" {
			for i, w := range ls.waitW {
				if w == t.ID {
					ls.waitW = append(ls.waitW[:i], ls.waitW[i+1:]...)
					break
				}
			}
			ls.writer = t.ID
			t.pendingWriter = false
		} else {
			ls.readers = append(ls.readers, t.ID)
			t.pendingReader = false
		}
		x.noteAcquire(t, key)
		t.waitOp, t.waitKey = "", ""
		x.mu.Unlock()
	}
}

// lockClass orders the named locks: doc -> pull -> attachment -> push.
func lockClass(key string) int {
	switch {
	case strings.HasPrefix(key, "doc-push-"):
		return 4
	case strings.HasPrefix(key, "doc-pull-"):
		return 2
	case strings.HasPrefix(key, "doc-attachment-"), strings.HasPrefix(key, "attachment-"):
		return 3
	case strings.HasPrefix(key, "doc-"):
		return 1
	}
	return 0
}

func (x *Exec) noteAcquire(t *Thread, key string) {
	c := lockClass(key)
	if c > 0 {
		for _, h := range x.held[t.ID] {
			if hc := lockClass(h); hc > c {
				x.OrderViol = append(x.OrderViol, fmt.Sprintf("%s acquires %s while holding %s", t.Name, classify(key), classify(h)))
			}
		}
	}
	x.held[t.ID] = append(x.held[t.ID], key)
}

func classify(key string) string {
	switch lockClass(key) {
	case 1:
		return "doc"
	case 2:
		return "pull"
	case 3:
		return "attachment"
	case 4:
		return "push"
	}
	return key
}

// enabled reports whether thread t can make progress if chosen.
func (x *Exec) enabledLocked(t *Thread) bool {
	if t.done {
		return false
	}
	if t.pendingWriter {
		ls := x.lock(t.waitKey)
		return ls.writer == -1 && len(ls.readers) == 0 && len(ls.waitW) > 0 && ls.waitW[0] == t.ID
	}
	if t.pendingReader {
		ls := x.lock(t.waitKey)
		return ls.writer == -1 && len(ls.waitW) == 0
	}
	return true
}

// Run drives the execution to completion (or deadlock). It must be called
// from the controller goroutine after all initial threads are registered.
func (x *Exec) Run() {
	curMu.Lock()
	cur = x
	curMu.Unlock()
	defer func() {
		curMu.Lock()
		cur = nil
		curMu.Unlock()
	}()
	for {
		x.mu.Lock()
		var en []int
		allDone := true
		for _, t := range x.threads {
			if !t.done {
				allDone = false
			}
			if x.enabledLocked(t) {
				en = append(en, t.ID)
			}
		}
		if allDone {
			x.mu.Unlock()
			return
		}
		if len(en) == 0 {
			var sb strings.Builder
			for _, t := range x.threads {
				if !t.done {
					fmt.Fprintf(&sb, "%s waits for %s(%s) [holds %v]; ", t.Name, t.waitOp, classifyKeys([]string{t.waitKey}), classifyKeys(x.held[t.ID]))
				}
			}
			x.Deadlock = sb.String()
			x.mu.Unlock()
			return
		}
		if len(x.Points) >= x.MaxPoints {
			x.Aborted = "point limit"
			x.mu.Unlock()
			return
		}
		// canonical order: running thread first if still enabled
		ordered := make([]int, 0, len(en))
		for _, id := range en {
			if id == x.running {
				ordered = append(ordered, id)
			}
		}
		for _, id := range en {
			if id != x.running {
				ordered = append(ordered, id)
			}
		}
		choice := 0
		if n := len(x.Points); n < len(x.prefix) {
			choice = x.prefix[n]
			if choice >= len(ordered) {
				x.Aborted = fmt.Sprintf("replay divergence at point %d: choice %d of %d", n, choice, len(ordered))
				x.mu.Unlock()
				return
			}
		}
		x.Points = append(x.Points, Point{Enabled: ordered, Chosen: choice, Running: x.running})
		t := x.threads[ordered[choice]]
		if x.KeepTrace {
			x.Trace = append(x.Trace, fmt.Sprintf("%s@%s(%s)", t.Name, t.waitOp, classifyKeys([]string{t.waitKey})))
		}
		x.running = t.ID
		x.mu.Unlock()
		t.wake <- struct{}{}
		<-x.ctrl // the thread parked at its next point or finished
	}
}

func classifyKeys(keys []string) string {
	var out []string
	for _, k := range keys {
		if k == "" {
			continue
		}
		c := classify(k)
		if c == k {
			out = append(out, k)
		} else {
			// keep what distinguishes instances: the suffix hash is run-specific, so only the class
			out = append(out, c)
		}
	}
	return strings.Join(out, ",")
}

// Choices returns the choice sequence taken.
func (x *Exec) Choices() []int {
	out := make([]int, len(x.Points))
	for i, p := range x.Points {
		out[i] = p.Chosen
	}
	return out
}

// Unfinished lists threads that did not finish.
func (x *Exec) Unfinished() []string {
	var out []string
	for _, t := range x.threads {
		if !t.done {
			out = append(out, t.Name)
		}
	}
	return out
}

// Threads returns the threads.
func (x *Exec) Threads() []*Thread { return x.threads }

// Explore runs the depth-first search with a preemption bound. mk builds a
// fresh scenario on the given Exec (registering threads) and returns a check
// function evaluated after Run. It returns the number of executions.
func Explore(bound int, maxExecs int, mk func(x *Exec) func(x *Exec) string, report func(choices []int, msg string) bool) (execs int, complete bool) {
	return ExploreFn(bound, maxExecs, func(prefix []int) (*Exec, string) {
		x := NewExec(prefix)
		check := mk(x)
		x.Run()
		if x.Aborted != "" || x.Deadlock != "" {
			return x, ""
		}
		return x, check(x)
	}, report)
}

// ExploreFn is Explore with the execution itself delegated to run: it must
// build a fresh scenario on NewExec(prefix), call Run and return the finished
// execution together with the oracle's verdict ("" = fine); a nil execution
// stops the search (reported as incomplete). This lets a
// harness wrap every execution (e.g. in its own testing/synctest bubble).
func ExploreFn(bound int, maxExecs int, run func(prefix []int) (*Exec, string), report func(choices []int, msg string) bool) (execs int, complete bool) {
	complete = true
	var rec func(prefix []int, used int) bool
	rec = func(prefix []int, used int) bool {
		if maxExecs > 0 && execs >= maxExecs {
			complete = false
			return false
		}
		x, verdict := run(prefix)
		if x == nil {
			complete = false // the harness asked to stop (internal deadline)
			return false
		}
		execs++
		msg := ""
		switch {
		case x.Aborted != "":
			msg = "harness: " + x.Aborted
		case x.Deadlock != "":
			msg = "deadlock: " + x.Deadlock
		default:
			msg = verdict
		}
		if msg != "" {
			if !report(x.Choices(), msg) {
				return false
			}
			if x.Deadlock != "" || x.Aborted != "" {
				return true // do not extend a dead execution
			}
		}
		// preemptions used along this execution up to each point
		cost := make([]int, len(x.Points)+1)
		for i, p := range x.Points {
			c := 0
			if p.Chosen != 0 && len(p.Enabled) > 0 && p.Running >= 0 && p.Enabled[0] == p.Running {
				c = 1
			}
			cost[i+1] = cost[i] + c
		}
		for i := len(prefix); i < len(x.Points); i++ {
			p := x.Points[i]
			for alt := 1; alt < len(p.Enabled); alt++ {
				c := cost[i]
				if p.Running >= 0 && p.Enabled[0] == p.Running {
					c++
				}
				if c > bound {
					continue
				}
				np := append(append([]int{}, x.Choices()[:i]...), alt)
				if !rec(np, c) {
					return false
				}
			}
		}
		return true
	}
	rec(nil, 0)
	return execs, complete
}
